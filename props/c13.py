"""C13 - gradients handed to optimisers are the true gradient of the objective."""
import math

from hypothesis import strategies as st

from vlib import backends, gen_spec
from vlib.refmodel import RefModel, aux_to_flat, flat_to_pars, main_to_flat, pars_to_flat

ID = "C13"
LEVEL = "exploration"
RULE = (
    "Hypothesis-generated well-posed specs (any modifier mix, all interpolation-code settings) x parameter "
    "points in every interpolation regime incl. the breakpoints and their float neighbours x data x "
    "{jax, pytorch, tensorflow} x do_stitch x generated fixed masks. Oracle: value of shim(do_grad=True) "
    "== value of shim(do_grad=False) == 2*reference NLL; gradient == Richardson-extrapolated central "
    "differences of the *reference* NLL over the free parameters (between the two one-sided derivatives "
    "at a kink of code0/code1); length = number of free parameters when stitched; no NaN/inf. "
    "A fifth of the cases are POI-less models made of per-bin factors only (shapesys/staterror/shapefactor). "
    "Non-trivial: >=1 nuisance in an extrapolation regime or on a breakpoint and >=2 modifier types, or a "
    "per-bin-factor-only model; "
    "distinct by (shape signature, regime pattern, mask, backend, stitch, codes)."
)
ASSUMPTIONS = [
    "finite-difference reference: relative accuracy ~1e-8; tolerance 2e-6*(|g| + scale)",
    "reference NLL from vlib/refmodel.py",
]


def shards(tier):
    q = tier == "quick"
    out = []
    for i in range(7):
        out.append({"name": f"pytorch{i}", "backend": "pytorch", "examples": 280 if q else 1800})
    for i in range(5):
        out.append({"name": f"tensorflow{i}", "backend": "tensorflow", "examples": 80 if q else 700})
    for i in range(4):
        out.append({"name": f"jax{i}", "backend": "jax", "examples": 18 if q else 150})
    return out


@st.composite
def strategy_(draw, shard):
    binwise_only = draw(st.integers(0, 4)) == 0
    if binwise_only:
        # POI-less models whose parameters are all per-bin factors (every parameter reaches the rates through a
        # plain gather of the parameter vector, several times when shared between samples / constraint)
        spec = draw(gen_spec.specs(max_channels=2, max_bins=3, max_samples=3, wellposed=False, allow_zero=False,
                                   overrides=False, kinds=("shapesys", "staterror", "shapefactor"), mod_prob=0.7))
        if not any(m for c in spec["channels"] for smp in c["samples"] for m in smp["modifiers"]):
            spec["channels"][0]["samples"][0]["modifiers"].append(
                {"name": "sf_only", "type": "shapefactor", "data": None})
    else:
        spec = draw(gen_spec.specs(max_channels=2, max_bins=3, max_samples=3, wellposed=True, overrides=False))
    ref = RefModel(spec)
    pars = draw(gen_spec.points(ref, positive=True, max_alpha=4.5, in_bounds=True, at_init_prob=0.15))
    exp = ref.expected_main(pars)
    main = draw(gen_spec.main_data(ref, exp))
    aux = draw(gen_spec.aux_data(ref))
    names = sorted(ref.params)
    fixed = {n: (draw(st.integers(0, 5)) == 0) for n in names}
    if all(fixed.values()):
        fixed[names[0]] = False
    return {"spec": spec, "pars": pars, "main": main, "aux": aux, "fixed": fixed, "poiless": binwise_only,
            "stitch": draw(st.booleans()), "backend": shard["backend"],
            "histosys": draw(st.sampled_from(["code4p", "code4p", "code0", "code2"])),
            "normsys": draw(st.sampled_from(["code4", "code4", "code1"]))}


def strategy(shard):
    return strategy_(shard)


def regime(a):
    if a == 0:
        return "0"
    if abs(a) == 1:
        return "b"
    if abs(abs(a) - 1) < 1e-12:
        return "n"
    return "x" if abs(a) > 1 else "c"


def run_case(case, ctx):
    import pyhf
    from pyhf.infer.mle import twice_nll
    from pyhf.optimize.common import shim

    spec = case["spec"]
    ref = RefModel(spec, case["histosys"], case["normsys"])
    pars = case["pars"]
    if not ref.rates_safely_positive(pars, floor=1e-3):
        ctx.discard("expected rate not safely positive at the generated point")
    tl = backends.use(case["backend"])
    try:
        model = pyhf.Model(spec, modifier_settings={"histosys": {"interpcode": case["histosys"]},
                                                    "normsys": {"interpcode": case["normsys"]}},
                           **({"poi_name": None} if case.get("poiless") else {}))
        cfg = model.config
        x = pars_to_flat(cfg, pars)
        data = main_to_flat(cfg, case["main"]) + aux_to_flat(cfg, ref, case["aux"])
        bounds = cfg.suggested_bounds()
        fixed_idx = [i for n in cfg.par_order for i in range(cfg.par_slice(n).start, cfg.par_slice(n).stop)
                     if case["fixed"][n]]
        fixed_vals = [(i, x[i]) for i in fixed_idx]
        free_idx = [i for i in range(cfg.npars) if i not in fixed_idx]
        sig = f"C13/{case['backend']}"

        def nll2(vec):
            p = flat_to_pars(cfg, vec)
            m, c, _ = ref.logpdf_parts(p, case["main"], case["aux"])
            return -2.0 * (m + c)

        f0 = nll2(x)
        if not math.isfinite(f0):
            ctx.discard("reference objective not finite at the point")
        ok, (kw, _) = ctx.call(f"{sig}/shim", shim, twice_nll, tl.astensor(data), model, list(x), bounds,
                               fixed_vals, do_grad=True, do_stitch=case["stitch"])
        if not ok:
            return
        ok2, (kw0, _) = ctx.call(f"{sig}/shim_nograd", shim, twice_nll, tl.astensor(data), model, list(x), bounds,
                                 fixed_vals, do_grad=False, do_stitch=case["stitch"])
        if not ok2:
            return
        x0 = list(kw["x0"])
        okf, res = ctx.call(f"{sig}/func", kw["func"], x0)
        okg, v0 = ctx.call(f"{sig}/func_nograd", kw0["func"], x0)
        if not (okf and okg):
            return
        if not (isinstance(res, tuple) and len(res) == 2):
            ctx.fail(f"{sig}/func_does_not_return_value_and_grad", got=repr(type(res)))
            return
        val = float(backends.tonp(res[0]))
        grad = [float(g) for g in backends.tonp(res[1]).reshape(-1)]
        v0 = float(backends.tonp(v0))
        scale = abs(f0) + 1.0
        ctx.close("value_vs_nograd", val, v0, 1e-12 * scale, f"{sig}/value_ne_nograd_value")
        ctx.close("value_vs_ref", val, f0, 1e-9 * scale, f"{sig}/value_ne_reference_2nll")
        # repeated evaluation with one and the same backend tensor (call history must not matter)
        t_arg = tl.astensor(x0)
        okr1, rep1 = ctx.call(f"{sig}/func_tensor_argument", kw["func"], t_arg)
        okr2, rep2 = ctx.call(f"{sig}/func_tensor_argument", kw["func"], t_arg)
        if okr1 and okr2:
            g1 = [float(g) for g in backends.tonp(rep1[1]).reshape(-1)]
            g2 = [float(g) for g in backends.tonp(rep2[1]).reshape(-1)]
            if len(g1) != len(grad) or any(abs(a - b) > 1e-9 * (1 + abs(b)) for a, b in zip(g1, grad)):
                ctx.fail(f"{sig}/gradient_differs_for_tensor_argument", first=g1[:4], reference_call=grad[:4])
            elif any(abs(a - b) > 1e-9 * (1 + abs(b)) for a, b in zip(g2, g1)):
                ctx.fail(f"{sig}/gradient_depends_on_call_history", first=g1[:4], second=g2[:4])
            if abs(float(backends.tonp(rep2[0])) - val) > 1e-9 * scale:
                ctx.fail(f"{sig}/value_depends_on_call_history")
        idx = free_idx if case["stitch"] else list(range(cfg.npars))
        if len(grad) != len(idx):
            ctx.fail(f"{sig}/gradient_length", got=len(grad), want=len(idx), stitched=case["stitch"])
            return
        names = {}
        for n in cfg.par_order:
            for i in range(cfg.par_slice(n).start, cfg.par_slice(n).stop):
                names[i] = n
        for g, i in zip(grad, idx):
            n = names[i]
            p = ref.params[n]
            kind = "+".join(sorted(p.kinds))
            if not math.isfinite(g):
                ctx.fail(f"{sig}/gradient_not_finite/{kind}", parameter=n, value=repr(g), at=x[i])
                continue
            alpha_type = p.kinds <= {"normsys", "histosys"}
            h = 1e-3 * max(1.0, abs(x[i]))

            def f_at(v):
                a = list(x)
                a[i] = v
                return nll2(a)

            def central(step):
                d = lambda t: (f_at(x[i] + t) - f_at(x[i] - t)) / (2 * t)  # noqa: E731
                return (4 * d(step / 2) - d(step)) / 3

            def one_sided(step, sgn):
                d = lambda t: sgn * (-3 * f0 + 4 * f_at(x[i] + sgn * t) - f_at(x[i] + sgn * 2 * t)) / (2 * t)  # noqa: E731
                return (4 * d(step / 2) - d(step)) / 3

            gs = abs(g) + 1e-3 * scale / max(1.0, abs(x[i])) + 1.0
            if alpha_type:
                # breakpoints of the piecewise definitions: 0 (code0/code1), +-1 (code2/code4/code4p)
                bps = [-1.0, 0.0, 1.0]
                near = [b for b in bps if abs(x[i] - b) < 2.5 * h]
                code1_here = "normsys" in p.kinds and case["normsys"] == "code1"
                if near:
                    b = near[0]
                    hh = 2e-4
                    # jax and tensorflow flush subnormals to zero: a subnormal alpha *is* the breakpoint 0 there
                    flushed = case["backend"] in ("jax", "tensorflow") and b == 0.0 and abs(x[i]) < 2.3e-308
                    if x[i] == b or flushed:
                        lo, hi = sorted([one_sided(hh, -1), one_sided(hh, +1)])
                    else:
                        side = 1 if x[i] > b else -1
                        # stay on one side of the breakpoint
                        hh = min(hh, abs(x[i] - b) / 4) if abs(x[i] - b) > 1e-6 else hh
                        if abs(x[i] - b) > 1e-6:
                            lo = hi = central(hh)
                        else:
                            lo = hi = one_sided(hh, side)
                    if not (math.isfinite(lo) and math.isfinite(hi)):
                        continue
                    tol = 2e-5 * gs + 2e-5 * max(abs(lo), abs(hi))
                    ok = lo - tol <= g <= hi + tol
                    ctx.err("gradient", 0.0 if ok else float("inf"))
                    if not ok:
                        if x[i] == 0.0 and code1_here:
                            ctx.fail(f"{sig}/code1_kink_at_alpha0/gradient_not_a_subgradient", parameter=n, got=g, lo=lo, hi=hi)
                        else:
                            ctx.fail(f"{sig}/gradient_ne_derivative_at_breakpoint/{kind}", parameter=n, got=g, lo=lo, hi=hi,
                                     at=x[i], histosys=case["histosys"], normsys=case["normsys"])
                    continue
            # gammas must stay positive for the reference evaluation
            if p.kinds & {"shapesys", "staterror", "shapefactor", "normfactor", "lumi"} and x[i] - h <= 0:
                h = x[i] / 4 if x[i] > 0 else None
            if h is None:
                continue
            # Richardson value with an error estimate: halve the step until two successive values agree
            # (a pole of the objective close to the point - small normalisation factors - makes the h^4 term large)
            want, trunc = central(h), math.inf
            for _ in range(5):
                nxt = central(h / 2)
                trunc, want, h = abs(nxt - want), nxt, h / 2
                if not math.isfinite(want) or trunc <= 2e-7 * gs:
                    break
            if not math.isfinite(want):
                continue
            if trunc > 2e-7 * gs:
                ctx.count("finite_difference_did_not_settle", 1)
                continue
            reg = regime(x[i]) if alpha_type else "-"
            ctx.close("gradient", g, want, 2e-6 * gs + 2e-6 * abs(want) + 2 * trunc,
                      f"{sig}/gradient_ne_derivative/{kind}/{'stitch' if case['stitch'] else 'nostitch'}",
                      parameter=n, at=x[i], regime=reg, histosys=case["histosys"], normsys=case["normsys"])
        regs = "".join(sorted({regime(pars[n][0]) for n, p in ref.params.items() if p.kinds <= {"normsys", "histosys"}}))
        kinds = sorted({m["type"] for c in spec["channels"] for s in c["samples"] for m in s["modifiers"]})
        ctx.label(f"backend={case['backend']}", f"stitch={case['stitch']}", f"hs={case['histosys']}",
                  f"ns={case['normsys']}", f"n_fixed={min(len(fixed_idx), 3)}")
        if set(regs) & {"x"}:
            ctx.label("alpha_extrapolated")
        if set(regs) & {"b", "n", "0"}:
            ctx.label("alpha_on_breakpoint")
        if case.get("poiless"):
            ctx.label("per_bin_factors_only_no_poi")
        if ((set(regs) & {"x", "b", "n"}) and len(kinds) >= 2) or (case.get("poiless") and len(kinds) >= 1):
            shape = [(c["name"], len(c["samples"][0]["data"]),
                      sorted((s["name"], sorted((m["type"], m["name"]) for m in s["modifiers"]))
                             for s in c["samples"])) for c in spec["channels"]]
            ctx.nontrivial([shape, regs, sorted(k for k, v in case["fixed"].items() if v), case["backend"],
                            case["stitch"], case["histosys"], case["normsys"]])
    finally:
        backends.reset()

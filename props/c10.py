"""C10 - batched evaluation equals row-by-row evaluation."""
import math

import numpy as np
from hypothesis import strategies as st

from vlib import backends, gen_spec
from vlib.refmodel import LayoutMismatch, RefModel, aux_to_flat, main_to_flat, pars_to_flat

ID = "C10"
LEVEL = "exploration"
RULE = (
    "Hypothesis-generated specs x batch size 1..8 x pairwise distinct parameter rows x datasets (independent, or related to row 0: identical, counts permuted over the bins, events moved between two bins) x "
    "interpolation settings x backend. Oracles: row i of the batched model == unbatched model on row i "
    "(expected_data, logpdf; differential) and == reference model; output shapes (N, ndata), (N,); sample "
    "shape shape+(N, ndata); non-interference (replacing row j leaves all other rows bit-identical). "
    "Non-trivial: N>=2 with pairwise distinct parameter rows, >=2 different datasets and (a bin-wise modifier or >=2 channels); distinct by "
    "(shape signature, N, settings, backend)."
)
ASSUMPTIONS = [
    "tolerance between batched and unbatched evaluation: 1e-12*(1+sum|terms|) (reduction order may differ)",
    "non-interference and shapes are compared exactly",
]


def shards(tier):
    q = tier == "quick"
    out = []
    for i in range(6 if q else 8):
        out.append({"name": f"numpy{i}", "backend": "numpy", "examples": 380 if q else 3500})
    for i in range(3):
        out.append({"name": f"pytorch{i}", "backend": "pytorch", "examples": 220 if q else 2500})
    for i in range(4):
        out.append({"name": f"jax{i}", "backend": "jax", "examples": 6 if q else 250})
    for i in range(3):
        out.append({"name": f"tensorflow{i}", "backend": "tensorflow", "examples": 70 if q else 900})
    return out


@st.composite
def strategy_(draw, shard):
    spec = draw(gen_spec.specs(max_channels=3, max_bins=4, histosys_rel=0.25))
    ref = RefModel(spec)
    n = draw(st.sampled_from([1, 2, 2, 3, 3, 4, 5, 8]))
    rows = []
    for _ in range(n):
        pars = draw(gen_spec.points(ref, positive=True, max_alpha=1.6, at_init_prob=0.1))
        exp = ref.expected_main(pars)
        rows.append({"pars": pars, "main": draw(gen_spec.main_data(ref, exp)),
                     "aux": draw(gen_spec.aux_data(ref))})
    # related datasets: some rows reuse row 0's observations - identical, with its counts permuted over the bins, or
    # with events moved between two bins (same totals, same auxiliary data, different log-density)
    import copy as _copy

    for r in range(1, n):
        k = draw(st.integers(0, 6))
        if k > 2:
            continue
        rows[r]["aux"] = _copy.deepcopy(rows[0]["aux"])
        flat = [v for c in ref.channels for v in rows[0]["main"][c]]
        if k == 1 and len(flat) > 1:
            flat = list(draw(st.permutations(flat)))
        elif k == 2 and len(flat) > 1:
            i = draw(st.integers(0, len(flat) - 1))
            j = (i + draw(st.integers(1, len(flat) - 1))) % len(flat)
            d = draw(st.sampled_from([1.0, 2.0, 0.5]))
            if flat[i] >= d:
                flat[i], flat[j] = flat[i] - d, flat[j] + d
        main, pos = {}, 0
        for c in ref.channels:
            nb = len(rows[0]["main"][c])
            main[c] = flat[pos:pos + nb]
            pos += nb
        rows[r]["main"] = main
    hs = draw(st.sampled_from(["code4p", "code0", "code2"]))
    ns = draw(st.sampled_from(["code4", "code1"]))
    return {"spec": spec, "rows": rows, "histosys": hs, "normsys": ns, "backend": shard["backend"],
            "replace": draw(st.integers(0, n - 1)), "sample_shape": draw(st.sampled_from([[], [2], [2, 3]]))}


def strategy(shard):
    return strategy_(shard)


def run_case(case, ctx):
    import pyhf

    spec = case["spec"]
    ref = RefModel(spec, case["histosys"], case["normsys"])
    rows = case["rows"]
    for r in rows:
        if not ref.rates_safely_positive(r["pars"]):
            ctx.discard("expected rate negative or rounding-sensitively close to 0")
    tl = backends.use(case["backend"])
    try:
        N = len(rows)
        ms = {"histosys": {"interpcode": case["histosys"]}, "normsys": {"interpcode": case["normsys"]}}
        ok, mb = ctx.call("C10/build_batched", pyhf.Model, spec, batch_size=N, modifier_settings=ms)
        ok2, mu = ctx.call("C10/build_unbatched", pyhf.Model, spec, modifier_settings=ms)
        if not (ok and ok2):
            return
        cfg = mu.config
        try:
            P = [pars_to_flat(cfg, r["pars"]) for r in rows]
        except LayoutMismatch as e:
            ctx.fail("C10/layout_mismatch", message=str(e))
            return
        D = [main_to_flat(cfg, r["main"]) + aux_to_flat(cfg, ref, r["aux"]) for r in rows]
        ndata = cfg.nmaindata + cfg.nauxdata
        ok, eb = ctx.call("C10/batched_expected_data", mb.expected_data, P)
        ok2, lb = ctx.call("C10/batched_logpdf", mb.logpdf, P, D)
        if not (ok and ok2):
            return
        eb = backends.tonp(eb).astype(float)
        lb = backends.tonp(lb).astype(float)
        if eb.shape != (N, ndata):
            ctx.fail("C10/expected_data_shape", got=list(eb.shape), want=[N, ndata])
            return
        if lb.shape != (N,):
            ctx.fail("C10/logpdf_shape", got=list(lb.shape), want=[N])
            return
        for i in range(N):
            ok, eu = ctx.call("C10/unbatched_expected_data", mu.expected_data, P[i])
            ok2, lu = ctx.call("C10/unbatched_logpdf", mu.logpdf, P[i], D[i])
            if not (ok and ok2):
                return
            eu = backends.tonp(eu).astype(float)
            lu = float(backends.tonp(lu).reshape(-1)[0])
            wm, wc, scale = ref.logpdf_parts(rows[i]["pars"], rows[i]["main"], rows[i]["aux"])
            for k in range(ndata):
                ctx.close("expected_data", eb[i, k], eu[k], 1e-12 * (1 + abs(eu[k])),
                          "C10/expected_data_row_ne_unbatched", row=i, index=k, N=N)
            ctx.close("logpdf", lb[i], lu, 1e-12 * (1 + scale), "C10/logpdf_row_ne_unbatched", row=i, N=N)
            ctx.close("logpdf_ref", lb[i], wm + wc, 1e-10 * (1 + scale), "C10/logpdf_row_ne_reference", row=i, N=N)
        # non-interference
        j = case["replace"]
        if N >= 2:
            P2 = [list(p) for p in P]
            D2 = [list(d) for d in D]
            other = (j + 1) % N
            P2[j] = [0.5 * (a + b) if a != b else a * 1.01 + 0.01 for a, b in zip(P[j], P[other])]
            D2[j] = [float(round(0.5 * (a + b))) + 1.0 for a, b in zip(D[j], D[other])]
            e2 = backends.tonp(mb.expected_data(P2)).astype(float)
            l2 = backends.tonp(mb.logpdf(P2, D2)).astype(float)
            for i in range(N):
                if i == j:
                    continue
                if not np.array_equal(e2[i], eb[i], equal_nan=True):
                    ctx.fail("C10/interference/expected_data", changed_row=j, affected_row=i, N=N)
                if not (l2[i] == lb[i] or (math.isnan(l2[i]) and math.isnan(lb[i]))):
                    ctx.fail("C10/interference/logpdf", changed_row=j, affected_row=i, N=N,
                             before=float(lb[i]), after=float(l2[i]))
        # sample shapes
        shp = tuple(case["sample_shape"])
        ok, sb = ctx.call("C10/batched_sample", lambda: mb.make_pdf(tl.astensor(P)).sample(shp))
        ok2, su = ctx.call("C10/unbatched_sample", lambda: mu.make_pdf(tl.astensor(P[0])).sample(shp))
        if ok and ok2:
            sb, su = backends.tonp(sb), backends.tonp(su)
            if tuple(sb.shape) != shp + (N, ndata):
                ctx.fail("C10/batched_sample_shape", got=list(sb.shape), want=list(shp + (N, ndata)))
            if tuple(su.shape) != shp + (ndata,):
                ctx.fail("C10/unbatched_sample_shape", got=list(su.shape), want=list(shp + (ndata,)))
        distinct = len({tuple(p) for p in P}) == N and len({tuple(d) for d in D}) >= min(N, 2)
        binwise = any(p.n > 1 for p in ref.params.values())
        nch = len(spec["channels"])
        ctx.label(f"N={N}", f"backend={case['backend']}", f"hs={case['histosys']}", f"ns={case['normsys']}")
        if binwise:
            ctx.label("binwise_modifier")
        if N >= 2 and distinct and (binwise or nch >= 2):
            shape = [(c["name"], len(c["samples"][0]["data"]),
                      sorted((s["name"], sorted((m["type"], m["name"]) for m in s["modifiers"]))
                             for s in c["samples"])) for c in spec["channels"]]
            ctx.nontrivial([shape, N, case["histosys"], case["normsys"], case["backend"]])
    finally:
        backends.reset()

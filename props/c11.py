"""C11 - results are independent of the history of backend switches."""
import gc
import math

import numpy as np
from hypothesis import strategies as st

from vlib import backends, gen_spec
from vlib.refmodel import RefModel, pars_to_flat

ID = "C11"
LEVEL = "exploration"
RULE = (
    "Model-based history generation: Hypothesis draws a pool of specs / interpolator inputs and a list of "
    "12-30 operations {switch(backend, precision, optimizer) incl. no-op switches, create model / "
    "interpolator / tensor viewer / parameter viewer, delete + gc.collect, evaluate, fit}; the whole "
    "history shrinks as one value. Invariant after every step: get_backend() reflects the last switch; an "
    "evaluated object equals an object freshly constructed *now* from the same inputs (bit for bit at "
    "64-bit, 16 eps32 scale at 32-bit) and returns the current backend's tensor type and dtype; a fit on "
    "the old object agrees with a fit on the fresh one to 1e-10 relative (same deterministic optimiser, same "
    "function; 32-bit fits on numpy and jax; fit-heavy shards alternate {jax, numpy} x {32b, 64b}); after deletions no dead reference is left in the "
    "event callback lists and switches raise nothing. Non-trivial: >=2 real switches with an evaluated "
    "object older than the last switch, or a deletion before a switch; distinct by the (op, backend) sequence."
)
ASSUMPTIONS = [
    "default=True switches are out of scope (builders assume the numpy default backend)",
    "garbage collection = CPython reference counting + explicit gc.collect()",
    "tensorflow and jax histories run in dedicated shards (import / dispatch cost); the dtype of results is not asserted (the numpy 32b backend upcasts through float64 constants)",
]
EPS32 = 2.0**-23
FIT_RTOL = 1e-10


def shards(tier):
    q = tier == "quick"
    out = []
    for i in range(7):
        out.append({"name": f"hist{i}", "tf": False, "jax": False, "examples": 32 if q else 600})
    for i in range(3):
        out.append({"name": f"hist_jax{i}", "tf": False, "jax": True, "examples": 6 if q else 100})
    for i in range(3):
        # fit-heavy histories over {jax, numpy} x {32b, 64b}: the same model is fitted again after a precision
        # switch (jit caches keyed on the model object survive the switch)
        out.append({"name": f"hist_jaxfit{i}", "tf": False, "jax": True, "fit_heavy": True, "examples": 6 if q else 80})
    for i in range(3):
        out.append({"name": f"hist_tf{i}", "tf": True, "jax": False, "examples": 5 if q else 60})
    return out


@st.composite
def strategy_(draw, shard):
    specs, points = [], []
    for _ in range(2):
        sp = draw(gen_spec.specs(max_channels=2, max_bins=2, max_samples=2, wellposed=True, overrides=False))
        ref = RefModel(sp)
        specs.append(sp)
        points.append(draw(gen_spec.points(ref, positive=True, max_alpha=2.5, in_bounds=True)))
    interps = []
    for _ in range(2):
        code = draw(st.sampled_from([0, 1, 2, 4, "4p"]))
        nom = [draw(st.sampled_from([1.0, 5.0, 10.0])) for _ in range(2)]
        up = [n * draw(st.sampled_from([1.1, 1.3, 0.9])) for n in nom]
        dn = [n * draw(st.sampled_from([0.9, 0.8, 1.05])) for n in nom]
        interps.append({"code": code, "hist": [[[dn, nom, up]]],
                        "alphas": [[draw(st.sampled_from([0.0, 0.5, -0.7, 1.0, -1.0, 1.5, -2.0, 3.0])) for _ in range(draw(st.integers(1, 3)))]]})
    bes = ["numpy", "pytorch"] + (["jax"] if shard.get("jax") else []) + (["tensorflow"] if shard.get("tf") else [])
    heavy = bool(shard.get("fit_heavy"))
    if heavy:
        bes = ["jax", "jax", "numpy"]
    n = draw(st.integers(8, 16) if heavy else st.integers(10, 26))
    ops = []
    for _ in range(n):
        k = draw(st.integers(0, 11))
        if heavy and k >= 4:
            k = (4, 8, 9, 11, 11, 11, 11, 11)[k - 4]
        if k <= 3:
            ops.append({"op": "switch", "backend": draw(st.sampled_from(bes)),
                        "precision": draw(st.sampled_from(["64b", "32b"] if heavy else ["64b", "64b", "64b", "32b"])),
                        "optimizer": draw(st.sampled_from(["scipy", "scipy", "minuit"]))})
        elif k == 4:
            ops.append({"op": "create_model", "idx": draw(st.integers(0, 1))})
        elif k == 5:
            ops.append({"op": "create_interp", "idx": draw(st.integers(0, 1))})
        elif k == 6:
            ops.append({"op": "create_viewer", "kind": draw(st.sampled_from(["tensor", "param"])), "idx": draw(st.integers(0, 1))})
        elif k == 7:
            ops.append({"op": "delete", "which": draw(st.integers(0, 20))})
        elif k <= 10:
            ops.append({"op": "eval", "which": draw(st.integers(0, 20))})
        else:
            ops.append({"op": "fit", "which": draw(st.integers(0, 20))})
    # make sure something exists early
    ops.insert(0, {"op": "create_model", "idx": 0})
    ops.insert(1, {"op": "create_interp", "idx": 0})
    return {"specs": specs, "points": points, "interps": interps, "ops": ops}


def strategy(shard):
    return strategy_(shard)


# ------------------------------------------------------------------------------------------------------
class Obj:
    def __init__(self, kind, idx, handle, born):
        self.kind, self.idx, self.handle, self.born = kind, idx, handle, born


def _make(pyhf, case, kind, idx):
    if kind == "model":
        return pyhf.Model(case["specs"][idx], poi_name=None)
    if kind == "interp":
        it = case["interps"][idx]
        return pyhf.interpolators.get(it["code"])(it["hist"])
    if kind == "tensor":
        from pyhf.tensor.common import _TensorViewer

        return _TensorViewer([[0, 2, 4], [1, 3]], names=["a", "b"])
    if kind == "param":
        m = pyhf.Model(case["specs"][idx], poi_name=None)
        names = list(m.config.par_order)[: max(1, len(m.config.par_order) // 2)]
        return (pyhf.parameters.ParamViewer((m.config.npars,), m.config.par_map, names), m.config.npars)
    raise ValueError(kind)


def _evaluate(pyhf, case, obj_kind, idx, handle):
    tl = pyhf.tensorlib
    if obj_kind == "model":
        cfg = handle.config
        x = pars_to_flat(cfg, case["points"][idx])
        e = handle.expected_data(x)
        data = [float(round(v)) + 1.0 for v in backends.tonp(e).astype(float)[: cfg.nmaindata]] + [float(v) for v in cfg.auxdata]
        lp = handle.logpdf(x, data)
        return [e, lp]
    if obj_kind == "interp":
        return [handle(tl.astensor(case["interps"][idx]["alphas"]))]
    if obj_kind == "tensor":
        a, b = tl.astensor([10.0, 30.0, 50.0]), tl.astensor([20.0, 40.0])
        st_ = handle.stitch([a, b])
        sp = handle.split(st_)
        return [st_] + list(sp)
    viewer, npars = handle
    return [viewer.get(tl.astensor([0.5 + 0.25 * i for i in range(npars)]))]


def run_case(case, ctx):
    import pyhf

    # the history starts with a switch to the default backend: a switch is what the property is about, so an
    # exception from inside pyhf here is a finding, not a harness error
    ok0, _ = ctx.call("C11/initial_switch_to_numpy", backends.reset)
    if not ok0:
        return
    state = {"backend": "numpy", "precision": "64b", "optimizer": "scipy"}
    objs = []
    real_switches = 0
    last_switch_step = -1
    seq = []
    nt = False
    deleted_before_switch = False
    pending_delete = False
    try:
        for step, op in enumerate(case["ops"]):
            kind = op["op"]
            try:
                if kind == "switch":
                    if op["backend"] == "pytorch":
                        import torch

                        torch.set_num_threads(1)
                    changed = (op["backend"], op["precision"]) != (state["backend"], state["precision"])
                    gc.collect()  # everything unreachable is dead *before* the switch triggers the callbacks
                    pyhf.set_backend(op["backend"], op["optimizer"], precision=op["precision"])
                    state = {"backend": op["backend"], "precision": op["precision"], "optimizer": op["optimizer"]}
                    if changed:
                        real_switches += 1
                        last_switch_step = step
                        if pending_delete:
                            deleted_before_switch = True
                    pending_delete = False
                    tlb, opt = pyhf.get_backend()
                    if tlb.name != op["backend"] or tlb.precision != op["precision"] or opt.name != op["optimizer"]:
                        ctx.fail("C11/get_backend_does_not_reflect_last_switch", got=[tlb.name, tlb.precision, opt.name], want=op)
                    if pyhf.tensorlib is not tlb:
                        ctx.fail("C11/pyhf.tensorlib_is_not_current_backend")
                    # no dead references left in the callback lists after a trigger
                    ev = getattr(pyhf.events, "__events")
                    if changed and "tensorlib_changed" in ev:
                        dead = sum(1 for f, a in ev["tensorlib_changed"]._callbacks if a is not None and a() is None)
                        if dead:
                            ctx.fail("C11/dead_references_left_in_callbacks", dead=dead)
                    seq.append(f"switch:{op['backend']}:{op['precision']}")
                elif kind.startswith("create"):
                    k2 = {"create_model": "model", "create_interp": "interp"}.get(kind) or op["kind"]
                    objs.append(Obj(k2, op["idx"], _make(pyhf, case, k2, op["idx"]), step))
                    seq.append(f"create:{k2}")
                elif kind == "delete":
                    if objs:
                        o = objs.pop(op["which"] % len(objs))
                        del o
                        gc.collect()
                        pending_delete = True
                        seq.append("delete")
                elif kind == "eval":
                    if not objs:
                        continue
                    o = objs[op["which"] % len(objs)]
                    old = _evaluate(pyhf, case, o.kind, o.idx, o.handle)
                    fresh = _evaluate(pyhf, case, o.kind, o.idx, _make(pyhf, case, o.kind, o.idx))
                    tlb = pyhf.tensorlib
                    for j, (a, b) in enumerate(zip(old, fresh)):
                        if not isinstance(a, tlb.array_type):
                            ctx.fail(f"C11/result_not_a_tensor_of_the_current_backend/{o.kind}", backend=state["backend"],
                                     got=type(a).__name__)
                            continue
                        na, nb = backends.tonp(a).astype(float), backends.tonp(b).astype(float)
                        if na.shape != nb.shape:
                            ctx.fail(f"C11/old_object_shape_differs_from_fresh/{o.kind}", old=list(na.shape), fresh=list(nb.shape))
                            continue
                        if state["precision"] == "64b":
                            same = np.array_equal(na, nb, equal_nan=True)
                        else:
                            scale = np.abs(nb) + 1.0
                            same = bool(np.all((np.abs(na - nb) <= 16 * EPS32 * scale * 8) | (np.isnan(na) & np.isnan(nb))))
                        if not same:
                            ctx.fail(f"C11/old_object_differs_from_fresh/{o.kind}/{state['precision']}",
                                     backend=state["backend"], born_at_step=o.born, last_switch=last_switch_step,
                                     old=na.reshape(-1)[:4].tolist(), fresh=nb.reshape(-1)[:4].tolist())
                    if real_switches >= 2 and o.born < last_switch_step:
                        nt = True
                    seq.append(f"eval:{o.kind}")
                elif kind == "fit":
                    models = [o for o in objs if o.kind == "model"]
                    # pytorch/tensorflow at 32b hand scipy a float32 objective, which SLSQP rejects in a fresh
                    # process as well: not a statement about switching, so 32b fits run on numpy and jax only
                    if not models or state["backend"] == "tensorflow" or (
                            state["precision"] != "64b" and state["backend"] not in ("numpy", "jax")):
                        continue
                    o = models[op["which"] % len(models)]
                    cfg = o.handle.config
                    x = pars_to_flat(cfg, RefModel(case["specs"][o.idx]).inits())
                    data = [float(round(v)) + 1.0 for v in backends.tonp(o.handle.expected_data(x)).astype(float)[: cfg.nmaindata]] + [float(v) for v in cfg.auxdata]
                    try:
                        _, v_old = pyhf.infer.mle.fit(data, o.handle, return_fitted_val=True)
                        _, v_new = pyhf.infer.mle.fit(data, _make(pyhf, case, "model", o.idx), return_fitted_val=True)
                    except pyhf.exceptions.FailedMinimization:
                        continue
                    v_old, v_new = float(backends.tonp(v_old)), float(backends.tonp(v_new))
                    # the same deterministic optimiser on the same function from the same start: the two fits
                    # agree to rounding unless the old object (or a cache keyed on it) carries state of an earlier backend
                    tol = FIT_RTOL * (1.0 + abs(v_new))
                    ctx.err("fit_old_vs_fresh", abs(v_old - v_new) / tol)
                    if abs(v_old - v_new) > tol:
                        ctx.fail(f"C11/fit_on_old_object_differs_from_fresh/{state['backend']}/{state['precision']}",
                                 old=v_old, fresh=v_new, history=seq[-12:])
                    if real_switches >= 2 and o.born < last_switch_step:
                        nt = True
                    seq.append("fit")
            except Exception as exc:  # noqa: BLE001
                from vlib.ctx import innermost_pyhf_frame

                w = innermost_pyhf_frame(exc)
                if w is None:
                    raise
                ctx.fail(f"C11/{kind}/raises/{type(exc).__name__}@{w[0]}:{w[1]}", backend=state["backend"],
                         precision=state["precision"], message=str(exc)[:200], step=step)
                return
        ctx.label(f"real_switches={min(real_switches, 5)}")
        if deleted_before_switch:
            ctx.label("deletion_before_a_switch")
        if nt:
            ctx.label("evaluated_object_older_than_last_switch")
        if nt or deleted_before_switch:
            ctx.nontrivial(seq)
    finally:
        objs.clear()
        gc.collect()
        try:
            backends.reset()
        except Exception:  # noqa: BLE001 - a broken switch has been reported above; otherwise it is a harness error
            if not ctx.failures:
                raise

"""C14 - toy p-values are exact tail fractions of correctly sampled pseudo-data."""
import math

import numpy as np
from hypothesis import strategies as st

from props.c06 import build, family_case
from vlib import backends, gen_spec, refstats
from vlib.refmodel import RefModel, pars_to_flat

ID = "C14"
LEVEL = "exploration"
RULE = (
    "(i) Hypothesis-generated sample vectors of either sign with ties/duplicates and observed values inside, "
    "outside, equal to samples, their float neighbours and relative 1e-8 / 1e-12 near misses on 4 backends: EmpiricalDistribution.pvalue == count(s>=v)/len exactly, in [0,1], "
    "non-increasing. (ii) generated specs x parameter points x sample shapes: sample shape, non-negative "
    "integer main counts, per-bin mean and variance within 6 standard errors of the expected rate (4000 "
    "draws), auxiliary normal (mean theta, sd sigma) and Poisson (mean gamma*tau, integer) draws. (iii) "
    "closed-form counting families x observed counts x tested mu x seed: ToyCalculator CL_s+b and CL_b "
    "within 6 binomial standard errors of the exact tail probability (finite sum over Poisson counts) "
    "evaluated at the conditional best-fit nuisance parameters of the respective hypothesis. Non-trivial: "
    "ties present, nuisance family, or observed count in a tail; distinct by hash of the case."
)
ASSUMPTIONS = [
    "all RNGs (numpy global, torch, tensorflow) are seeded from a Hypothesis-drawn value",
    "6 standard errors of exactly known sampling distributions: false-alarm probability < 1e-6 per run",
    "toy statistics within 2e-3 of the observed statistic are treated as ambiguous (fit noise) and give an "
    "interval of exact probabilities",
]


def shards(tier):
    q = tier == "quick"
    out = []
    for be in ("numpy", "pytorch", "jax", "tensorflow"):
        out.append({"name": f"emp_{be}", "kind": "emp", "backend": be, "examples": 1500 if q else 30000})
    for be, n in (("numpy", 300), ("pytorch", 200), ("jax", 30), ("tensorflow", 80)):
        out.append({"name": f"sample_{be}", "kind": "sample", "backend": be, "examples": n if q else n * 12})
    for i in range(8):
        out.append({"name": f"toys{i}", "kind": "toys", "backend": "numpy", "examples": 12 if q else 100,
                    "ntoys": 300 if q else 2000})
    return out


@st.composite
def strategy_(draw, shard):
    kind = shard["kind"]
    if kind == "emp":
        # sample values of either sign (the class is a generic empirical distribution), many ties
        pool = draw(st.lists(st.one_of(st.integers(0, 6).map(float), st.integers(-6, 6).map(float),
                                       st.floats(0, 30).map(lambda v: round(v, 2)),
                                       st.floats(-30, 30).map(lambda v: round(v, 2)),
                                       st.floats(1e-9, 1e6).map(lambda v: float(f"{v:.5g}"))),
                             min_size=1, max_size=6))
        samples = draw(st.lists(st.sampled_from(pool), min_size=1, max_size=40))
        # observed values: exact ties, float neighbours and near misses of a sample, points between and outside
        near = st.builds(lambda x, k: [math.nextafter(x, math.inf), math.nextafter(x, -math.inf), x * (1 + 3e-8),
                                       x * (1 - 3e-8), x * (1 + 1e-12), x * (1 - 1e-12), x + 1e-9, x - 1e-9][k],
                         st.sampled_from(samples), st.integers(0, 7)).map(
            # no subnormal observed values: jax and tensorflow flush them to zero (not the subject here)
            lambda v: v if (v == 0 or abs(v) > 1e-300) else math.copysign(1e-300, v))
        vals = draw(st.lists(st.one_of(st.sampled_from(samples), near, st.floats(-31, 31).map(lambda v: round(v, 2)),
                                       st.sampled_from([-1.0, 1e9, 0.0, -1e9])), min_size=2, max_size=8))
        return {"kind": kind, "samples": samples, "values": vals, "backend": shard["backend"],
                "shape2d": draw(st.booleans())}
    if kind == "sample":
        spec = draw(gen_spec.specs(max_channels=2, max_bins=3, max_samples=2, histosys_rel=0.2))
        ref = RefModel(spec)
        pars = draw(gen_spec.points(ref, positive=True, max_alpha=1.4, in_bounds=True))
        return {"kind": kind, "spec": spec, "pars": pars, "backend": shard["backend"],
                "shape": draw(st.sampled_from([[], [3], [2, 2]])), "seed": draw(st.integers(0, 2**31 - 1))}
    case = draw(family_case())
    case["bounds"] = [0.0, 10.0]
    if case["family"] == "A":
        # keep the exact enumeration cheap: at most 2 bins
        case["s"], case["b"], case["data"] = case["s"][:2], [min(b, 40.0) for b in case["b"][:2]], case["data"][:2]
        case["data"] = [float(min(d, 80)) for d in case["data"]]
        case["data"] = [float(round(d)) for d in case["data"]]
        case["split"] = [len(case["s"])]
    else:
        case["b"] = min(case["b"], 40.0)
        case["delta"] = float(f"{case['b'] * 0.25:.6g}") if draw(st.booleans()) else float(f"{case['b'] * 0.35:.6g}")
        tau = (case["b"] / case["delta"]) ** 2
        case["data"] = [float(round(min(case["data"][0], 90))), float(round(tau + draw(st.integers(-3, 3))))]
        # sometimes the caller holds the nuisance parameter fixed (through fixed_params): the toys of both
        # hypotheses must then be thrown at that value
        if draw(st.integers(0, 2)) == 0:
            case["fix_gamma"] = draw(st.sampled_from([0.85, 1.0, 1.15]))
    case.update(kind="toys", ntoys=shard["ntoys"], seed=draw(st.integers(0, 2**31 - 1)), backend="numpy")
    return case


def strategy(shard):
    return strategy_(shard)


def seed_all(seed, backend):
    np.random.seed(seed % (2**32))
    if backend == "pytorch":
        import torch

        torch.manual_seed(seed)
    if backend == "tensorflow":
        import tensorflow as tf

        tf.random.set_seed(seed)


def run_case(case, ctx):
    kind = case["kind"]
    if kind == "emp":
        return run_emp(case, ctx)
    if kind == "sample":
        return run_sample(case, ctx)
    return run_toys(case, ctx)


def run_emp(case, ctx):
    from pyhf.infer.calculators import EmpiricalDistribution

    tl = backends.use(case["backend"])
    try:
        s = case["samples"]
        arr = tl.astensor([s] if case["shape2d"] else s)
        dist = EmpiricalDistribution(arr)
        prev = None
        ties = len(set(s)) < len(s)
        for v in sorted(case["values"]):
            ok, p = ctx.call(f"C14/pvalue/{case['backend']}", dist.pvalue, v)
            if not ok:
                return
            p = float(backends.tonp(p))
            want = sum(1 for x in s if x >= v) / len(s)
            if p != want:
                where = ("tie" if v in s else "near_miss" if any(abs(v - x) <= 1e-6 * max(abs(x), 1e-3) for x in s)
                         else "between_or_outside") + ("/negative_value" if v < 0 else "")
                ctx.fail(f"C14/pvalue_ne_tail_fraction/{case['backend']}/{where}", value=v, got=p, want=want)
            if not (0.0 <= p <= 1.0):
                ctx.fail(f"C14/pvalue_out_of_range/{case['backend']}", got=p)
            if prev is not None and p > prev:
                ctx.fail(f"C14/pvalue_not_monotone/{case['backend']}", value=v, got=p, previous=prev)
            prev = p
        ctx.label("kind=emp", f"backend={case['backend']}")
        if ties:
            ctx.label("ties_present")
            ctx.nontrivial(["emp", case["backend"], s, case["values"]])
    finally:
        backends.reset()


def run_sample(case, ctx):
    import pyhf

    spec = case["spec"]
    ref = RefModel(spec)
    pars = case["pars"]
    if not ref.rates_safely_positive(pars, floor=1e-3):
        ctx.discard("expected rate not safely positive")
    tl = backends.use(case["backend"])
    try:
        model = pyhf.Model(spec)
        cfg = model.config
        x = pars_to_flat(cfg, pars)
        ndata = cfg.nmaindata + cfg.nauxdata
        seed_all(case["seed"], case["backend"])
        shp = tuple(case["shape"])
        ok, smp = ctx.call(f"C14/sample/{case['backend']}", lambda: model.make_pdf(tl.astensor(x)).sample(shp))
        if not ok:
            return
        smp = backends.tonp(smp)
        if tuple(smp.shape) != shp + (ndata,):
            ctx.fail(f"C14/sample_shape/{case['backend']}", got=list(smp.shape), want=list(shp + (ndata,)))
            return
        N = 4000
        ok, big = ctx.call(f"C14/sample/{case['backend']}", lambda: model.make_pdf(tl.astensor(x)).sample((N,)))
        if not ok:
            return
        big = backends.tonp(big).astype(float)
        if big.shape != (N, ndata):
            ctx.fail(f"C14/sample_shape/{case['backend']}", got=list(big.shape), want=[N, ndata])
            return
        exp = ref.expected_main_flat(pars)
        for b, lam in enumerate(exp):
            col = big[:, b]
            if (col < 0).any() or (col != np.round(col)).any():
                ctx.fail(f"C14/main_counts_not_nonnegative_integers/{case['backend']}", bin=b)
                continue
            _moments(ctx, col, lam, lam, lam + 3 * lam * lam, N, f"C14/main_sampling/{case['backend']}", bin=b)
        # auxiliary part, by name through the reported layout
        k = cfg.nmaindata
        for name in cfg.auxdata_order:
            p = ref.params[name]
            for j in range(p.n):
                col = big[:, k]
                k += 1
                th = pars[name][j]
                if p.constraint == "poisson":
                    lam = th * p.factors[j]
                    if (col < 0).any() or (col != np.round(col)).any():
                        ctx.fail(f"C14/aux_poisson_not_integer/{case['backend']}", parameter=name)
                        continue
                    _moments(ctx, col, lam, lam, lam + 3 * lam * lam, N, f"C14/aux_poisson_sampling/{case['backend']}", parameter=name)
                else:
                    sg = p.sigmas[j] if p.sigmas is not None else 1.0
                    _moments(ctx, col, th, sg * sg, 3 * sg**4, N, f"C14/aux_normal_sampling/{case['backend']}/{'+'.join(sorted(p.kinds))}",
                             parameter=name)
        ctx.label("kind=sample", f"backend={case['backend']}", f"shape={len(shp)}d")
        if cfg.nauxdata:
            ctx.nontrivial(["sample", case["backend"], case["seed"], case["shape"], sorted(pars)])
    finally:
        backends.reset()


def _moments(ctx, col, mean, var, m4, N, sig, **detail):
    """sample mean / variance within 6 standard errors (m4 = fourth central moment)"""
    m, v = float(col.mean()), float(col.var(ddof=1))
    se_m = math.sqrt(var / N)
    se_v = math.sqrt(max(m4 - var * var, 0.0) / N) + var * 2.0 / N
    ok1 = abs(m - mean) <= 6 * se_m + 1e-9
    ok2 = abs(v - var) <= 6 * se_v + 1e-9
    ctx.err("mean", abs(m - mean) / (6 * se_m + 1e-9))
    ctx.err("variance", abs(v - var) / (6 * se_v + 1e-9))
    if not ok1:
        ctx.fail(sig + "/mean", got=m, want=mean, se=se_m, **detail)
    if not ok2:
        ctx.fail(sig + "/variance", got=v, want=var, se=se_v, **detail)


def exact_tail(fam, family, mu_hyp, nuis, mu_test, q_obs, obs_data, band=2e-3):
    """[p_lo, p_hi] = P(q(data) >= q_obs | hypothesis) by finite summation over Poisson counts"""
    from scipy.stats import poisson

    def rng(lam):
        w = 9 * math.sqrt(lam) + 12
        return range(max(0, int(lam - w)), int(lam + w) + 1)

    plo = phi = 0.0
    if family == "A":
        lams = [mu_hyp * s + b for s, b in zip(fam.s, fam.b)]
        grids = [rng(l) for l in lams]
        import itertools

        for pt in itertools.product(*grids):
            pr = 1.0
            for n, l in zip(pt, lams):
                pr *= poisson.pmf(n, l)
            if pr < 1e-16:
                continue
            q, _, _, _ = refstats.qmu_like(fam, mu_test, [float(n) for n in pt])
            if q >= q_obs + band:
                plo += pr
                phi += pr
            elif q > q_obs - band:
                phi += pr
                if [float(n) for n in pt] == list(obs_data):
                    plo += pr
        return plo, phi
    g = nuis
    l1, l2 = mu_hyp * fam.s + g * fam.b, g * fam.tau
    for n in rng(l1):
        p1 = poisson.pmf(n, l1)
        if p1 < 1e-14:
            continue
        for a in rng(l2):
            pr = p1 * poisson.pmf(a, l2)
            if pr < 1e-16:
                continue
            if a == 0:
                q = None
            else:
                q, pc, pu, _ = refstats.qmu_like(fam, mu_test, [float(n), float(a)])
                if pc is None or pu is None:
                    q = None
            if q is None:
                phi += pr  # degenerate corner: count as ambiguous
                continue
            if q >= q_obs + band:
                plo += pr
                phi += pr
            elif q > q_obs - band:
                phi += pr
                if [float(n), float(a)] == list(obs_data):
                    plo += pr
    return plo, phi


def run_toys(case, ctx):
    import pyhf
    from pyhf.infer.calculators import ToyCalculator

    spec, fam = build(case)
    mu = case["mu"]
    backends.use("numpy")
    try:
        model = pyhf.Model(spec, poi_name="mu")
        data = list(case["data"])
        seed_all(case["seed"], "numpy")
        N = case["ntoys"]
        fixg = case.get("fix_gamma")
        extra = {}
        if fixg is not None:
            cfg = model.config
            init = cfg.suggested_init()
            init[cfg.par_slice("uncorr_bkguncrt").start] = fixg
            fixed = cfg.suggested_fixed()
            fixed[cfg.par_slice("uncorr_bkguncrt").start] = True
            extra = {"init_pars": init, "par_bounds": cfg.suggested_bounds(), "fixed_params": fixed}
        try:
            calc = ToyCalculator(data, model, ntoys=N, track_progress=False, **extra)
            ts = calc.teststatistic(mu)
            sb, b = calc.distributions(mu)
            clsb, clb = float(backends.tonp(sb.pvalue(ts))), float(backends.tonp(b.pvalue(ts)))
        except pyhf.exceptions.FailedMinimization:
            ctx.discard("FailedMinimization in a toy fit")
        except Exception as exc:  # noqa: BLE001
            from vlib.ctx import Discard, innermost_pyhf_frame

            if isinstance(exc, Discard):
                raise
            w = innermost_pyhf_frame(exc)
            if w is None:
                raise
            ctx.fail(f"C14/toys/raises/{type(exc).__name__}@{w[0]}:{w[1]}", message=str(exc)[:200])
            return
        q_obs = float(backends.tonp(ts))
        family = case["family"]
        if fixg is not None:
            # gamma held fixed: the statistic depends on n only, as for a nuisance-free model with b' = gamma*b
            fam = refstats.FamilyA([case["s"]], [fixg * case["b"]], tuple(case["bounds"]))
            family, data_q = "A", [data[0]]
        else:
            data_q = data
        q_ref, pc, _, _ = refstats.qmu_like(fam, mu, data_q)
        ctx.close("q_obs", q_obs, q_ref, 2e-3 + 1e-5 * q_ref, "C14/toys/observed_statistic_ne_closed_form")
        if family == "A":
            nuis_sb = nuis_b = None
        else:
            nuis_sb = fam.conditional(mu, data)[0][1]
            nuis_b = fam.conditional(0.0, data)[0][1]
        for name, got, mu_h, nuis in (("CLsb", clsb, mu, nuis_sb), ("CLb", clb, 0.0, nuis_b)):
            plo, phi = exact_tail(fam, family, mu_h, nuis, mu, q_ref, data_q)
            se = math.sqrt(max(phi * (1 - plo), 1e-12) / N)
            lo, hi = plo - 6 * se - 1.0 / N, phi + 6 * se + 1.0 / N
            ok = lo <= got <= hi
            ctx.err(name, 0.0 if ok else float("inf"))
            if not ok:
                ctx.fail(f"C14/toys/{name}_outside_exact_tail_probability/{case['family']}{'_fixed_nuisance' if fixg is not None else ''}", got=got, exact=[plo, phi],
                         se=se, ntoys=N, q_obs=q_ref, mu=mu)
        ctx.label("kind=toys", f"family={case['family']}")
        if fixg is not None:
            ctx.label("nuisance_fixed_by_caller")
        ctx.nontrivial(["toys", case["family"], data, mu, case["seed"]])
    finally:
        backends.reset()

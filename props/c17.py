"""C17 - patch sets look up, verify and apply patches exactly."""
import copy
import hashlib
import json
import math

from hypothesis import strategies as st

from vlib import backends, gen_spec, jsonpatch_ref

ID = "C17"
LEVEL = "fault_enumeration"
RULE = (
    "Hypothesis-generated schema-valid patch-set documents (names from [a-zA-Z0-9_]+ with a boosted "
    "dictionary of internally used words, value tuples of ints/floats/strings incl. 1 vs 1.0, 1-3 labels, "
    "1-6 patches, injected duplicate names / value tuples, correct or single-algorithm-wrong digests, "
    "RFC 6902 operation lists built against the current workspace state; a third of the workspaces carry a "
    "non-ASCII channel or measurement name) with generated lookup keys; plus, "
    "per case, the exhaustive enumeration of every single-leaf corruption (number +-1 ulp / +1, string "
    "edit incl. appended / replaced non-ASCII characters, element removed / duplicated / swapped, key renamed) of the verified workspace. Oracles: accept "
    "iff names and value tuples pairwise distinct; lookup by exactly name / tuple / list, anything else "
    "InvalidPatchLookup; document order; verify succeeds iff every recorded digest matches; digest "
    "invariant under recursive key reordering and different under every corruption; apply == independent "
    "RFC 6902 applier on a deep copy, input untouched. Non-trivial: internal-word name, float/string "
    "values, or a corruption at depth >= 3; distinct by hash of the document."
)
ASSUMPTIONS = [
    "JSON numbers 1 and 1.0 denote the same value tuple entry (python equality of the tuples)",
    "lookup keys tried: strings, tuples and lists of scalars, ints, None",
    "vlib/jsonpatch_ref.py implements RFC 6902",
]
INTERNAL_WORDS = ["name", "values", "metadata", "patches", "labels", "digests", "patch", "version",
                  "references", "description", "_patches", "_patches_by_key", "schema", "0", "None"]


def shards(tier):
    q = tier == "quick"
    out = [{"name": f"doc{i}", "examples": 450 if q else 8000} for i in range(13 if q else 14)]
    # coverage-guided campaigns (atheris/libFuzzer mutating the bytes the same strategy decodes; DESIGN 2.4)
    out += [{"name": f"fuzz{i}", "kind": "fuzz", "runs": 300 if q else 6000} for i in range(1 if q else 2)]
    return out


names = st.one_of(st.sampled_from(INTERNAL_WORDS), st.sampled_from(INTERNAL_WORDS),
                  st.from_regex(r"[a-zA-Z0-9_]{1,6}", fullmatch=True))
scalars = st.one_of(st.integers(-3, 3), st.sampled_from([1.0, 0.5, 2.0, 1e-3, 300.0, -1.0]),
                    st.floats(-1e3, 1e3).map(lambda v: float(f"{v:.4g}")),
                    st.sampled_from(["a", "1", "1.0", "name", "values", ""]))


def small_ws():
    return gen_spec.workspaces(max_channels=2, max_bins=2, max_samples=2, max_measurements=2, mod_prob=0.3)


@st.composite
def ops(draw, ws):
    """A list of RFC 6902 operations, each valid for the workspace state left by the previous ones."""
    cur = copy.deepcopy(ws)
    out = []
    for _ in range(draw(st.integers(0, 4))):
        ci = draw(st.integers(0, len(cur["channels"]) - 1))
        ch = cur["channels"][ci]
        si = draw(st.integers(0, len(ch["samples"]) - 1))
        smp = ch["samples"][si]
        k = draw(st.integers(0, 8))
        if k == 0:
            op = [{"op": "replace", "path": f"/channels/{ci}/samples/{si}/data",
                   "value": [float(draw(st.integers(0, 50))) for _ in smp["data"]]}]
        elif k == 1:
            oi = draw(st.integers(0, len(cur["observations"]) - 1))
            b = draw(st.integers(0, len(cur["observations"][oi]["data"]) - 1))
            op = [{"op": "replace", "path": f"/observations/{oi}/data/{b}", "value": draw(st.integers(0, 99))}]
        elif k == 2:
            op = [{"op": "add", "path": f"/channels/{ci}/samples/{si}/modifiers/-",
                   "value": {"name": draw(st.sampled_from(["mu", "nf_new", "k~x/y"])), "type": "normfactor", "data": None}}]
        elif k == 3 and smp["modifiers"]:
            mi = draw(st.integers(0, len(smp["modifiers"]) - 1))
            op = [{"op": "remove", "path": f"/channels/{ci}/samples/{si}/modifiers/{mi}"}]
        elif k == 4:
            op = [{"op": "test", "path": f"/channels/{ci}/name", "value": ch["name"]},
                  {"op": "replace", "path": f"/channels/{ci}/samples/{si}/name", "value": "renamed"}]
        elif k == 5:
            op = [{"op": "copy", "from": f"/channels/{ci}/samples/{si}", "path": f"/channels/{ci}/samples/-"}]
        elif k == 6 and len(ch["samples"]) >= 2:
            op = [{"op": "move", "from": f"/channels/{ci}/samples/0", "path": f"/channels/{ci}/samples/{len(ch['samples']) - 1}"}]
        elif k == 7:
            op = [{"op": "add", "path": "/measurements/0/config/parameters/0",
                   "value": {"name": "extra", "inits": [draw(st.sampled_from([1.0, 0.5]))]}}]
        else:
            op = [{"op": "add", "path": f"/channels/{ci}/samples/{si}/data/0", "value": 7.5},
                  {"op": "remove", "path": f"/channels/{ci}/samples/{si}/data/0"}]
        cur = jsonpatch_ref.apply_patch(cur, op)
        out += op
    return out


@st.composite
def strategy_(draw, shard):
    ws = draw(small_ws())
    if draw(st.integers(0, 2)) == 0:
        # names outside ASCII (a channel renamed consistently, or a measurement)
        suffix = draw(st.sampled_from(["_\u03bc\u03bc", "\u00e9", "_\u03c4\u03c4", "\u0304", "_\u00b5"]))
        ws = copy.deepcopy(ws)
        if draw(st.booleans()):
            old = ws["channels"][0]["name"]
            ws["channels"][0]["name"] = old + suffix
            for o in ws["observations"]:
                if o["name"] == old:
                    o["name"] = old + suffix
        else:
            ws["measurements"][0]["name"] += suffix
    nlab = draw(st.integers(1, 3))
    labels = draw(st.lists(st.from_regex(r"[a-zA-Z0-9_]{1,4}", fullmatch=True), min_size=nlab, max_size=nlab))
    npat = draw(st.integers(1, 6))
    patches = []
    for i in range(npat):
        nm = draw(names)
        vals = [draw(scalars) for _ in range(nlab)]
        if i > 0 and draw(st.integers(0, 9)) < 2:
            nm = patches[draw(st.integers(0, i - 1))]["metadata"]["name"]
        if i > 0 and draw(st.integers(0, 9)) < 2:
            vals = list(patches[draw(st.integers(0, i - 1))]["metadata"]["values"])
            if draw(st.booleans()):
                vals = [float(v) if isinstance(v, int) else v for v in vals]  # 1 vs 1.0
        patches.append({"metadata": {"name": nm, "values": vals}, "patch": draw(ops(ws))})
    keys = [draw(st.one_of(names, st.lists(scalars, min_size=0, max_size=3), st.integers(0, 3), st.none()))
            for _ in range(4)] + ["name", "values"]
    return {"ws": ws, "labels": labels, "patches": patches, "keys": keys,
            "digest_mode": draw(st.sampled_from(["correct", "correct", "wrong_md5", "wrong_sha256", "md5_only", "sha256_only"])),
            "apply_index": draw(st.integers(0, npat - 1))}


def strategy(shard):
    return strategy_(shard)


def canon_digest(obj, alg):
    s = json.dumps(obj, sort_keys=True, ensure_ascii=False).encode("utf8")
    return getattr(hashlib, alg)(s).hexdigest()


def reorder(obj):
    """same JSON value, every object's keys inserted in reverse order"""
    if isinstance(obj, dict):
        return {k: reorder(obj[k]) for k in reversed(list(obj))}
    if isinstance(obj, list):
        return [reorder(v) for v in obj]
    return obj


def corruptions(obj, path=()):
    """yield (kind, leaf_type, depth, corrupted_copy_builder) for every single-leaf corruption"""
    if isinstance(obj, dict):
        for k in obj:
            yield ("key_renamed", "key", len(path) + 1, path + (k,), None)
            yield from corruptions(obj[k], path + (k,))
    elif isinstance(obj, list):
        for i in range(len(obj)):
            yield ("element_removed", "list", len(path) + 1, path + (i,), None)
            yield ("element_duplicated", "list", len(path) + 1, path + (i,), None)
            if i + 1 < len(obj) and obj[i] != obj[i + 1]:
                yield ("elements_swapped", "list", len(path) + 1, path + (i,), None)
            yield from corruptions(obj[i], path + (i,))
    elif isinstance(obj, bool) or obj is None:
        yield ("value_changed", "null_or_bool", len(path), path, None)
    elif isinstance(obj, (int, float)):
        yield ("number_plus_ulp", "number", len(path), path, None)
        yield ("number_minus_ulp", "number", len(path), path, None)
        yield ("number_plus_one", "number", len(path), path, None)
    elif isinstance(obj, str):
        yield ("string_edit", "string", len(path), path, None)
        yield ("string_non_ascii_appended", "string", len(path), path, None)
        yield ("string_combining_mark_appended", "string", len(path), path, None)
        if any(ord(c) > 127 for c in obj):
            yield ("string_non_ascii_replaced", "string", len(path), path, None)


def corrupt(doc, kind, path):
    d = copy.deepcopy(doc)
    parent = d
    for t in path[:-1]:
        parent = parent[t]
    last = path[-1]
    if kind == "key_renamed":
        parent[str(last) + "_x"] = parent.pop(last)
    elif kind == "element_removed":
        parent.pop(last)
    elif kind == "element_duplicated":
        parent.insert(last, copy.deepcopy(parent[last]))
    elif kind == "elements_swapped":
        parent[last], parent[last + 1] = parent[last + 1], parent[last]
    elif kind == "value_changed":
        parent[last] = 0 if parent[last] is None else None
    elif kind == "number_plus_ulp":
        parent[last] = math.nextafter(float(parent[last]), math.inf)
    elif kind == "number_minus_ulp":
        parent[last] = math.nextafter(float(parent[last]), -math.inf)
    elif kind == "number_plus_one":
        parent[last] = parent[last] + 1
    elif kind == "string_edit":
        parent[last] = parent[last] + "x"
    elif kind == "string_non_ascii_appended":
        parent[last] = parent[last] + "\u00b5"
    elif kind == "string_combining_mark_appended":
        parent[last] = parent[last] + "\u0304"
    elif kind == "string_non_ascii_replaced":
        parent[last] = "".join(chr(ord(c) + 1) if ord(c) > 127 else c for c in parent[last])
    return d


def run_case(case, ctx):
    import pyhf
    from pyhf import exceptions as E

    ws = case["ws"]
    backends.use("numpy")
    dm = case["digest_mode"]
    digests = {"md5": canon_digest(ws, "md5"), "sha256": canon_digest(ws, "sha256")}
    good = True
    if dm == "wrong_md5":
        digests["md5"] = ("0" if digests["md5"][0] != "0" else "1") + digests["md5"][1:]
        good = False
    elif dm == "wrong_sha256":
        digests["sha256"] = digests["sha256"][:-1] + ("0" if digests["sha256"][-1] != "0" else "1")
        good = False
    elif dm == "md5_only":
        del digests["sha256"]
    elif dm == "sha256_only":
        del digests["md5"]
    doc = {"metadata": {"references": {"hepdata": "ins1234567"}, "description": "generated", "digests": digests,
                        "labels": case["labels"]},
           "patches": case["patches"], "version": "1.0.0"}
    doc_before = copy.deepcopy(doc)
    pnames = [p["metadata"]["name"] for p in case["patches"]]
    pvals = [tuple(p["metadata"]["values"]) for p in case["patches"]]
    dup_name = len(set(pnames)) != len(pnames)
    dup_vals = len(set(pvals)) != len(pvals)
    # ---- construction ---------------------------------------------------------------------------
    try:
        ps = pyhf.PatchSet(doc)
        outcome = "accepted"
    except E.InvalidPatchSet:
        outcome = "InvalidPatchSet"
    except E.InvalidSpecification as exc:
        ctx.fail("C17/generated_document_fails_schema", message=str(exc)[:300])
        return
    except Exception as exc:  # noqa: BLE001
        outcome = f"raises_{type(exc).__name__}"
    internal = [n for n in pnames if n in INTERNAL_WORDS]
    ctx.label(f"outcome={outcome}", f"digest_mode={dm}")
    if dup_name or dup_vals:
        ctx.label("duplicates_injected")
        if outcome != "InvalidPatchSet":
            ctx.fail(f"C17/duplicates_{'name' if dup_name else 'values'}/{outcome}", names=pnames,
                     values=[list(v) for v in pvals])
        _classify(ctx, case, internal)
        return
    if outcome != "accepted":
        which = "internal_word_name" if internal else "plain"
        ctx.fail(f"C17/distinct_patches_rejected/{which}/{outcome}", names=pnames)
        _classify(ctx, case, internal)
        return
    if doc != doc_before:
        ctx.fail("C17/input_document_mutated")
    # ---- order, len -------------------------------------------------------------------------------
    if len(ps) != len(pnames) or [p.name for p in ps] != pnames:
        ctx.fail("C17/iteration_order", got=[p.name for p in ps], want=pnames)
    # ---- lookups ----------------------------------------------------------------------------------
    for i, (n, v) in enumerate(zip(pnames, pvals)):
        for how, key in (("name", n), ("tuple", v), ("list", list(v))):
            try:
                got = ps[key]
            except Exception as exc:  # noqa: BLE001
                ctx.fail(f"C17/lookup_by_{how}/raises_{type(exc).__name__}", key=repr(key))
                continue
            if not isinstance(got, pyhf.patchset.Patch) or got.name != n or got.values != v or \
                    list(got.patch) != case["patches"][i]["patch"]:
                ctx.fail(f"C17/lookup_by_{how}/wrong_patch", key=repr(key), got=repr(got)[:100])
    for key in case["keys"]:
        k = tuple(key) if isinstance(key, list) else key
        if k in pnames or k in pvals:
            continue
        kind = "internal_word" if key in INTERNAL_WORDS else type(key).__name__
        try:
            got = ps[key]
            ctx.fail(f"C17/lookup_absent_key/{kind}/returned", key=repr(key), got=repr(got)[:100])
        except E.InvalidPatchLookup:
            pass
        except Exception as exc:  # noqa: BLE001
            ctx.fail(f"C17/lookup_absent_key/{kind}/raises_{type(exc).__name__}", key=repr(key))
    # ---- digest / verify --------------------------------------------------------------------------
    ws_before = copy.deepcopy(ws)
    for alg in ("md5", "sha256"):
        d0 = pyhf.utils.digest(ws, algorithm=alg)
        if d0 != canon_digest(ws, alg):
            ctx.fail(f"C17/digest_not_canonical/{alg}")
        if pyhf.utils.digest(reorder(ws), algorithm=alg) != d0:
            ctx.fail(f"C17/digest_depends_on_key_order/{alg}")
    vr = _verify(ps, ws, E)
    if good and vr != "ok":
        ctx.fail(f"C17/verify_rejects_matching_digests/{dm}/{vr}")
    if not good and vr != "PatchSetVerificationError":
        ctx.fail(f"C17/verify_accepts_wrong_digest/{dm}/{vr}")
    if good and _verify(ps, reorder(ws), E) != "ok":
        ctx.fail("C17/verify_depends_on_key_order")
    deep = False
    if good:
        ncor = 0
        for kind, leaf, depth, path, _ in corruptions(ws):
            bad = corrupt(ws, kind, path)
            ncor += 1
            same = [alg for alg in digests if pyhf.utils.digest(bad, algorithm=alg) == digests[alg]]
            if same:
                ctx.fail(f"C17/digest_insensitive/{kind}/{leaf}", path=list(path), algorithms=same)
            r = _verify(ps, bad, E)
            if r != "PatchSetVerificationError":
                ctx.fail(f"C17/verify_accepts_corruption/{kind}/{leaf}/{r}", path=list(path))
            deep = deep or depth >= 3
        ctx.count("single_leaf_corruptions_enumerated", ncor)
    # ---- apply ------------------------------------------------------------------------------------
    i = case["apply_index"]
    want = jsonpatch_ref.apply_patch(ws, case["patches"][i]["patch"])
    for how, key in (("name", pnames[i]), ("values", list(pvals[i]))):
        try:
            res = ps.apply(ws, key)
            r = "ok"
        except E.PatchSetVerificationError:
            r = "PatchSetVerificationError"
        except Exception as exc:  # noqa: BLE001
            r = f"raises_{type(exc).__name__}"
        if good:
            if r != "ok":
                ctx.fail(f"C17/apply/{r}", key=repr(key), ops=case["patches"][i]["patch"])
            elif dict(res) != want:
                ctx.fail("C17/apply/result_differs_from_reference_applier", ops=case["patches"][i]["patch"])
            elif not isinstance(res, pyhf.Workspace):
                ctx.fail("C17/apply/result_not_a_workspace")
        elif r != "PatchSetVerificationError":
            ctx.fail(f"C17/apply_without_verification/{r}")
    if ws != ws_before:
        ctx.fail("C17/apply_or_verify_mutated_input")
    _classify(ctx, case, internal, deep)


def _verify(ps, ws, E):
    try:
        ps.verify(ws)
        return "ok"
    except E.PatchSetVerificationError:
        return "PatchSetVerificationError"
    except Exception as exc:  # noqa: BLE001
        return f"raises_{type(exc).__name__}"


def _classify(ctx, case, internal, deep=False):
    vals = [v for p in case["patches"] for v in p["metadata"]["values"]]
    fs = any(isinstance(v, (float, str)) for v in vals)
    if internal:
        ctx.label("internal_word_name")
    if fs:
        ctx.label("float_or_string_values")
    if any(p["patch"] for p in case["patches"]):
        ctx.label("nonempty_operation_list")
    if internal or fs or deep:
        ctx.nontrivial([case["patches"], case["labels"], case["digest_mode"], case["ws"]])

"""C02 - the log-likelihood is exactly the HistFactory template."""
import math

from hypothesis import strategies as st

from vlib import backends, gen_spec
from vlib.refmodel import LayoutMismatch, RefModel, aux_to_flat, main_to_flat, pars_to_flat

ID = "C02"
LEVEL = "exploration"
RULE = (
    "Hypothesis-generated specs (with measurement-level overrides of auxdata/sigmas/factors) x parameter "
    "points x main data (integers, non-integers, zeros) x auxiliary data drawn independently of the "
    "parameters x backend x batched or not; oracle = name-keyed reference log-likelihood (one Poisson "
    "term per bin, one constraint term per constrained component, paired through auxdata_order), plus "
    "main+constraint=full, pdf=exp(logpdf), expected_auxdata and config.auxdata by name. Non-trivial: >=2 "
    "constrained parameters of different families or a bin-wise constrained set, with >=1 off-nominal "
    "auxiliary datum; distinct by (shape signature, off-nominal pattern, backend, batch)."
)
ASSUMPTIONS = [
    "reference model (vlib/refmodel.py) transcribes the HistFactory likelihood template",
    "auxiliary datum of component k of parameter p sits at offset(p in auxdata_order)+k (the reported layout)",
    "documented conventions reproduced: zero-yield / zero-uncertainty staterror and shapesys bins are fixed "
    "with sigma=1 / tau=1",
    "tolerance 1e-10 * (1 + sum |terms|) at 64-bit",
]


def shards(tier):
    q = tier == "quick"
    out = []
    for i in range(6 if q else 8):
        out.append({"name": f"numpy{i}", "backend": "numpy", "examples": 500 if q else 5000, "big": i % 3 == 2})
    for i in range(3):
        out.append({"name": f"pytorch{i}", "backend": "pytorch", "examples": 330 if q else 3000})
    for i in range(4):
        out.append({"name": f"jax{i}", "backend": "jax", "examples": 14 if q else 400})
    for i in range(3):
        out.append({"name": f"tensorflow{i}", "backend": "tensorflow", "examples": 110 if q else 1200})
    return out


@st.composite
def strategy_(draw, shard):
    big = shard.get("big", False)
    spec = draw(gen_spec.specs(max_channels=4 if big else 3, max_bins=5 if big else 4, histosys_rel=0.25))
    ref = RefModel(spec)
    nrows = draw(st.sampled_from([1, 1, 1, 2, 3]))
    batched = nrows > 1 or draw(st.integers(0, 4)) == 0
    rows = []
    for _ in range(nrows):
        pars = draw(gen_spec.points(ref, positive=True, max_alpha=1.6))
        exp = ref.expected_main(pars)
        rows.append({"pars": pars, "main": draw(gen_spec.main_data(ref, exp)),
                     "aux": draw(gen_spec.aux_data(ref))})
    return {"spec": spec, "rows": rows, "batched": batched, "backend": shard["backend"]}


def strategy(shard):
    return strategy_(shard)


def run_case(case, ctx):
    import pyhf

    spec = case["spec"]
    ref = RefModel(spec)
    rows = case["rows"]
    for r in rows:
        if not ref.rates_safely_positive(r["pars"]):
            ctx.discard("expected rate negative or rounding-sensitively close to 0 at the generated point")
    tl = backends.use(case["backend"])
    try:
        bs = len(rows) if case["batched"] else None
        ok, model = ctx.call("C02/build", pyhf.Model, spec, batch_size=bs)
        if not ok:
            return
        cfg = model.config
        # configuration-level auxiliary information
        nom = ref.nominal_aux()
        if sorted(cfg.auxdata_order) != sorted(nom):
            ctx.fail("C02/auxdata_order_names", got=list(cfg.auxdata_order), want=sorted(nom))
            return
        want_cfg_aux = [v for n in cfg.auxdata_order for v in nom[n]]
        got_cfg_aux = [float(v) for v in cfg.auxdata]
        if len(got_cfg_aux) != len(want_cfg_aux) or any(
                abs(g - w) > 1e-12 * (1 + abs(w)) for g, w in zip(got_cfg_aux, want_cfg_aux)):
            ctx.fail("C02/config_auxdata", got=got_cfg_aux, want=want_cfg_aux)
        try:
            P = [pars_to_flat(cfg, r["pars"]) for r in rows]
        except LayoutMismatch as e:
            ctx.fail("C02/layout_mismatch", message=str(e))
            return
        D = [main_to_flat(cfg, r["main"]) + aux_to_flat(cfg, ref, r["aux"]) for r in rows]
        nmain = cfg.nmaindata
        pa, da = (P, D) if bs else (P[0], D[0])
        ok, full = ctx.call("C02/logpdf", model.logpdf, pa, da)
        if not ok:
            return
        full = backends.tonp(full).astype(float).reshape(-1)
        if full.shape != (len(rows) if bs else 1,):
            ctx.fail("C02/logpdf_shape", got=list(full.shape))
            return
        tpa, tda = tl.astensor(pa), tl.astensor(da)
        main_d = tda[:, :nmain] if bs else tda[:nmain]
        aux_d = tda[:, nmain:] if bs else tda[nmain:]
        ok, mainl = ctx.call("C02/mainlogpdf", model.mainlogpdf, main_d, tpa)
        has_con = bool(ref.constrained())
        conl = None
        if has_con:
            ok2, conl = ctx.call("C02/constraint_logpdf", model.constraint_logpdf, aux_d, tpa)
            ok3, eaux = ctx.call("C02/expected_auxdata", model.expected_auxdata, tpa)
            if not (ok2 and ok3):
                return
            conl = backends.tonp(conl).astype(float).reshape(-1)
            eaux = backends.tonp(eaux).astype(float).reshape(len(rows) if bs else 1, -1)
        ok4, dens = ctx.call("C02/pdf", model.pdf, pa, da)
        if not (ok and ok4):
            return
        mainl = backends.tonp(mainl).astype(float).reshape(-1)
        dens = backends.tonp(dens).astype(float).reshape(-1)
        offnom = []
        for r, row in enumerate(rows):
            wm, wc, scale = ref.logpdf_parts(row["pars"], row["main"], row["aux"])
            tol = 1e-10 * (1 + scale)
            fams = sorted({(p.constraint, tuple(sorted(p.kinds))) for p in ref.constrained()})
            ctx.close("logpdf", full[r], wm + wc, tol, "C02/logpdf_value", row=r)
            ctx.close("mainlogpdf", mainl[r], wm, tol, "C02/mainlogpdf_value", row=r)
            if has_con:
                okc = ctx.close("constraint", conl[r], wc, tol, "C02/constraint_logpdf_value", row=r,
                                families=[list(f) for f in fams])
                ctx.close("sum", mainl[r] + conl[r], full[r], tol, "C02/main_plus_constraint_ne_full", row=r)
                ea = ref.expected_aux(row["pars"])
                want = [v for n in cfg.auxdata_order for v in ea[n]]
                if len(want) != eaux.shape[1]:
                    ctx.fail("C02/expected_auxdata_length", got=int(eaux.shape[1]), want=len(want))
                else:
                    for k, (g, w) in enumerate(zip(eaux[r], want)):
                        ctx.close("expected_aux", g, w, 1e-12 * (1 + abs(w)), "C02/expected_auxdata_value",
                                  index=k, row=r)
                if not okc:
                    # localise: which family is off?  (diagnostic detail only)
                    pass
            else:
                ctx.close("sum", mainl[r], full[r], tol, "C02/main_ne_full_without_constraints", row=r)
            if math.isfinite(full[r]) and full[r] > -700:
                ctx.close("pdf", dens[r], math.exp(full[r]), 1e-12 * math.exp(full[r]) + 1e-300,
                          "C02/pdf_ne_exp_logpdf", row=r)
            for p in ref.constrained():
                if any(a != n for a, n in zip(row["aux"][p.name], p.auxdata)):
                    offnom.append(p.name)
        fam = {(p.constraint, tuple(sorted(p.kinds))) for p in ref.constrained()}
        binwise = any(p.n > 1 for p in ref.constrained())
        ctx.label(f"backend={case['backend']}", f"batched={bool(bs)}",
                  f"constraint_families={len(fam)}", *[f"has_{'+'.join(k)}_{c}" for c, k in fam])
        if any(p.overridden and set(p.overridden) & {"auxdata", "sigmas", "factors"} for p in ref.params.values()):
            ctx.label("override_of_auxdata_sigmas_or_factors")
        if offnom:
            ctx.label("aux_off_nominal")
        if (len(fam) >= 2 or binwise) and offnom:
            shape = [(c["name"], len(c["samples"][0]["data"]),
                      sorted((s["name"], sorted((m["type"], m["name"]) for m in s["modifiers"]))
                             for s in c["samples"])) for c in spec["channels"]]
            ctx.nontrivial([shape, sorted(set(offnom)), case["backend"], bs])
    finally:
        backends.reset()

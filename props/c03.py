"""C03 - interpolation codes realise their defining piecewise functions for all alpha."""
import math

import numpy as np
from hypothesis import strategies as st

from vlib import backends
from vlib import refmodel as R
from vlib.gen_spec import nice_float

ID = "C03"
LEVEL = "exploration"
RULE = (
    "Hypothesis-generated (code in {0,1,2,4,4p}, alpha0 in {1,0.5,2} for code 4, histogram sets 1-3 x 1-3 x "
    "1-4 bins, alpha sets from a boundary-biased strategy, 1-4 successive calls of different alpha-set "
    "shape on one instance, backend x precision) plus an enumerated (code x breakpoint x {-ulp,0,+ulp}) "
    "grid and a jax-autodiff shard for C1/C2 at +-alpha0. Oracles: independent scalar formulae (code4/4p "
    "coefficients from a numpy.linalg.solve of the boundary conditions), anchors at 0/+1/-1, continuity "
    "across float neighbours, fast==slow, k-th call == fresh instance bit for bit. Non-trivial: alpha set "
    "contains an extrapolation point or a breakpoint/neighbour (history clause: shape changed); distinct "
    "by (code, alpha0, regime pattern, shape history, backend, precision)."
)
ASSUMPTIONS = [
    "reference formulae in vlib/refmodel.py (code2 in its continuous ROOT form)",
    "32-bit cases: inputs rounded to float32 before the reference is evaluated, tolerance x 1e5",
    "derivative continuity checked with jax autodiff only, at finitely many triples",
]
CODES = [0, 1, 2, 4, "4p"]
CODE_NAME = {0: "code0", 1: "code1", 2: "code2", 4: "code4", "4p": "code4p"}


def shards(tier):
    q = tier == "quick"
    out = []
    for i in range(6 if q else 8):
        out.append({"name": f"numpy{i}", "backend": "numpy", "examples": 1400 if q else 30000})
    for i in range(2 if q else 3):
        out.append({"name": f"pytorch{i}", "backend": "pytorch", "examples": 1200 if q else 15000})
    out.append({"name": "tensorflow0", "backend": "tensorflow", "examples": 500 if q else 6000})
    for i in range(2):
        out.append({"name": f"jax{i}", "backend": "jax", "examples": 60 if q else 700, "small": True})
    for i in range(4):
        out.append({"name": f"deriv{i}", "backend": "jax", "examples": 55 if q else 2000, "deriv": True})
    out.append({"name": "grid", "kind": "enum", "backend": "numpy"})
    return out


def breakpoints(code, alpha0):
    if code in (0, 1):
        return [0.0]
    if code == 4:
        return [alpha0, -alpha0]
    return [1.0, -1.0]


def alpha_strategy(code, alpha0):
    special = [0.0, 1.0, -1.0, 1e-8, -1e-8, 50.0, -50.0]
    for bp in breakpoints(code, alpha0) + [1.0, -1.0]:
        special += [bp, math.nextafter(bp, math.inf), math.nextafter(bp, -math.inf)]
    return st.one_of(
        st.sampled_from(special),
        nice_float(-1.0, 1.0),
        nice_float(1.0, 10.0),
        nice_float(1.0, 10.0).map(lambda v: -v),
    )


@st.composite
def triple(draw, multiplicative):
    if multiplicative:
        nom = draw(nice_float(0.1, 100.0, logscale=True))
        up = float(f"{nom * draw(nice_float(0.1, 10.0, logscale=True)):.6g}")
        dn = float(f"{nom * draw(nice_float(0.1, 10.0, logscale=True)):.6g}")
        if draw(st.integers(0, 9)) == 0:
            up = nom
        if draw(st.integers(0, 9)) == 0:
            dn = nom
    else:
        r4 = lambda v: round(v, 4)  # noqa: E731 - no denormal-scale values (float32 cases)
        nom = draw(nice_float(-100.0, 100.0).map(r4))
        up = draw(nice_float(-100.0, 100.0).map(r4))
        dn = draw(nice_float(-100.0, 100.0).map(r4))
        if draw(st.integers(0, 9)) == 0:
            up, dn = nom + (nom - dn), dn  # symmetric
    return dn, nom, up


@st.composite
def strategy_(draw, shard):
    code = draw(st.sampled_from(CODES))
    alpha0 = draw(st.sampled_from([1, 1, 0.5, 2])) if code == 4 else 1
    mult = code in (1, 4)
    if shard.get("deriv"):
        code = draw(st.sampled_from([4, "4p"]))
        alpha0 = draw(st.sampled_from([1, 0.5, 2])) if code == 4 else 1
        t = draw(triple(code == 4))
        return {"kind": "deriv", "code": code, "alpha0": alpha0, "triple": list(t), "backend": "jax",
                "precision": "64b"}
    small = shard.get("small")
    nsets = 1 if small else draw(st.integers(1, 3))
    nh = 1 if small else draw(st.integers(1, 3))
    nb = 2 if small else draw(st.integers(1, 4))
    hist = []
    for _ in range(nsets):
        hs = []
        for _ in range(nh):
            ts = [draw(triple(mult)) for _ in range(nb)]
            hs.append([[t[0] for t in ts], [t[1] for t in ts], [t[2] for t in ts]])
        hist.append(hs)
    ncalls = 1 if small else draw(st.integers(1, 4))
    calls = []
    for _ in range(ncalls):
        na = 2 if small else draw(st.integers(1, 4))
        calls.append([[draw(alpha_strategy(code, alpha0)) for _ in range(na)] for _ in range(nsets)])
    prec = "64b" if shard["backend"] == "jax" else draw(st.sampled_from(["64b", "64b", "64b", "32b"]))
    return {"kind": "value", "code": code, "alpha0": alpha0, "hist": hist, "calls": calls,
            "backend": shard["backend"], "precision": prec}


def strategy(shard):
    return strategy_(shard)


def cases(shard):
    """Exhaustive (code x alpha0 x breakpoint x {-ulp, 0, +ulp} x triple) grid."""
    add_triples = [(-3.0, 1.0, 7.5), (8.0, 10.0, 11.0), (12.0, 10.0, 9.0), (5.0, 5.0, 5.0),
                   (0.0, 0.0, 1.0), (-1.0, 0.0, -2.0)]
    mul_triples = [(0.8, 1.0, 1.3), (9.0, 10.0, 10.5), (1.2, 1.0, 0.7), (1.0, 1.0, 1.0),
                   (0.1, 1.0, 10.0), (2.0, 1.0, 3.0)]
    for code in CODES:
        for alpha0 in ([1, 0.5, 2] if code == 4 else [1]):
            bps = sorted(set(breakpoints(code, alpha0) + [0.0, 1.0, -1.0]))
            alphas = []
            for bp in bps:
                alphas += [math.nextafter(bp, -math.inf), bp, math.nextafter(bp, math.inf)]
            for t in (mul_triples if code in (1, 4) else add_triples):
                hist = [[[[t[0]], [t[1]], [t[2]]]]]
                for prec in ("64b", "32b"):
                    yield {"kind": "value", "code": code, "alpha0": alpha0, "hist": hist,
                           "calls": [[alphas]], "backend": "numpy", "precision": prec}


def _regime(code, alpha0, a):
    bps = breakpoints(code, alpha0)
    for bp in bps:
        if a == bp:
            return "breakpoint"
        if a in (math.nextafter(bp, math.inf), math.nextafter(bp, -math.inf)):
            return "neighbour"
    edge = alpha0 if code == 4 else 1.0
    if code in (0, 1):
        return "extrapolation" if abs(a) > 1 else "core"
    return "extrapolation" if abs(a) > edge else "core"


def _tol(code, alpha0, a, dn, nom, up, eps_scale):
    if code in (0, 2, "4p"):
        scale = abs(dn) + abs(nom) + abs(up)
        return 1e-11 * eps_scale * (scale * (1 + abs(a)) * 20) + 1e-300
    ref = R.interp(code, a, dn, nom, up, alpha0)
    lr = max(abs(math.log(up / nom)), abs(math.log(dn / nom)))
    t = abs(ref) * (1 + abs(a) * lr)
    if code == 4 and abs(a) < alpha0:
        c = R.code4_coefficients(dn, nom, up, alpha0)
        t += 1 + sum(abs(c[i - 1] * a**i) for i in range(1, 7))
    return 1e-10 * eps_scale * t + 1e-300


def _make(code, alpha0, hist, fast=True):
    from pyhf import interpolators

    cls = interpolators.get(code, do_tensorized_calc=fast)
    if code == 4:
        return cls(hist, alpha0=alpha0)
    return cls(hist)


def run_case(case, ctx):
    if case["kind"] == "deriv":
        return run_deriv(case, ctx)
    code, alpha0 = case["code"], case["alpha0"]
    cname = CODE_NAME[code]
    prec = case["precision"]
    tl = backends.use(case["backend"], prec)
    eps_scale = 1.0 if prec == "64b" else 1e5
    try:
        hist = case["hist"]
        f32 = (lambda v: float(np.float32(v))) if prec == "32b" else (lambda v: v)
        ok, inst = ctx.call(f"C03/{cname}/construct", _make, code, alpha0, hist)
        if not ok:
            return
        slow = _make(code, alpha0, hist, fast=False)
        regimes = set()
        shapes = []
        for k, alphasets in enumerate(case["calls"] + [[[0.0, 1.0, -1.0]] * len(hist)]):
            anchors = k == len(case["calls"])
            shapes.append(len(alphasets[0]))
            a_t = tl.astensor(alphasets)
            ok, res = ctx.call(f"C03/{cname}/call", inst, a_t)
            if not ok:
                return
            res = backends.tonp(res).astype(float)
            want_shape = (len(hist), len(hist[0]), len(alphasets[0]), len(hist[0][0][0]))
            if res.shape != want_shape:
                ctx.fail(f"C03/{cname}/shape", got=list(res.shape), want=list(want_shape))
                return
            # history independence: same call on a fresh instance, bit for bit
            fresh = backends.tonp(_make(code, alpha0, hist)(tl.astensor(alphasets))).astype(float)
            if not np.array_equal(res, fresh, equal_nan=True):
                ctx.fail(f"C03/{cname}/history", call_index=k, shapes=shapes)
            ok, sres = ctx.call(f"C03/{cname}/slow_call", slow, a_t)
            sres = backends.tonp(sres).astype(float) if ok else None
            for s, hs in enumerate(hist):
                for h, (dns, noms, ups) in enumerate(hs):
                    for ai, a in enumerate(alphasets[s]):
                        a_eff = f32(a)
                        reg = _regime(code, alpha0, a_eff)
                        if not anchors:
                            regimes.add(reg)
                        for b in range(len(noms)):
                            dn, nom, up = f32(dns[b]), f32(noms[b]), f32(ups[b])
                            want = R.interp(code, a_eff, dn, nom, up, alpha0)
                            tol = _tol(code, alpha0, a_eff, dn, nom, up, eps_scale)
                            got = res[s, h, ai, b]
                            if prec == "32b" and code in (1, 4) and abs(a_eff) * max(
                                    abs(math.log(up / nom)), abs(math.log(dn / nom))) > 60:
                                continue  # float32 overflow/underflow region: not representable
                            if anchors and code == 4 and a != 0.0 and abs(a) < alpha0:
                                continue  # alpha0 > 1: +-1 lies inside the polynomial, no anchor there
                            if anchors:
                                lab = {0.0: "0", 1.0: "+1", -1.0: "-1"}[a]
                                neutral = 1.0 if code in (1, 4) else 0.0
                                exact = {0.0: neutral,
                                         1.0: (up / nom if code in (1, 4) else up - nom),
                                         -1.0: (dn / nom if code in (1, 4) else dn - nom)}[a]
                                ctx.close("anchor", got, exact, tol, f"C03/{cname}/anchor/{lab}",
                                          triple=[dn, nom, up], alpha0=alpha0)
                            else:
                                ctx.close("value", got, want, tol, f"C03/{cname}/value/{reg}",
                                          alpha=a, triple=[dn, nom, up], alpha0=alpha0)
                            if sres is not None:
                                ctx.close("fast_vs_slow", got, sres[s, h, ai, b], 2 * tol,
                                          f"C03/{cname}/fast_vs_slow/{reg}", alpha=a,
                                          triple=[dn, nom, up], alpha0=alpha0)
        # continuity across the float neighbours of each breakpoint (direct, 64b only)
        if prec == "64b":
            for bp in breakpoints(code, alpha0):
                pts = [math.nextafter(bp, -math.inf), bp, math.nextafter(bp, math.inf)]
                v = backends.tonp(_make(code, alpha0, hist)(tl.astensor([pts] * len(hist)))).astype(float)
                for s, hs in enumerate(hist):
                    for h, (dns, noms, ups) in enumerate(hs):
                        for b in range(len(noms)):
                            tol = 4 * _tol(code, alpha0, bp, dns[b], noms[b], ups[b], 1.0)
                            for j in (0, 2):
                                ctx.close("continuity", v[s, h, j, b], v[s, h, 1, b], tol,
                                          f"C03/{cname}/continuity/{'+' if bp > 0 else ('-' if bp < 0 else '0')}",
                                          breakpoint=bp, triple=[dns[b], noms[b], ups[b]], alpha0=alpha0)
        ctx.label(cname, f"backend={case['backend']}", f"precision={prec}", *[f"regime={r}" for r in regimes])
        shape_changed = len(set(shapes[:-1])) > 1
        if shape_changed:
            ctx.label("alpha_shape_changed_between_calls")
        if regimes & {"extrapolation", "breakpoint", "neighbour"}:
            ctx.nontrivial([cname, alpha0, sorted(regimes), shapes, case["backend"], prec,
                            [len(hist), len(hist[0]), len(hist[0][0][0])]])
    finally:
        backends.reset()


def run_deriv(case, ctx):
    """C1 / C2 at +-alpha0 for codes 4 and 4p by automatic differentiation of pyhf's interpolator."""
    import jax

    code, alpha0 = case["code"], case["alpha0"]
    cname = CODE_NAME[code]
    dn, nom, up = case["triple"]
    tl = backends.use("jax", "64b")
    try:
        inst = _make(code, alpha0, [[[[dn], [nom], [up]]]])

        def f(a):
            return inst(tl.astensor([[a]]))[0, 0, 0, 0]

        d1 = jax.grad(f)
        d2 = jax.grad(d1)
        edge = float(alpha0) if code == 4 else 1.0
        if code == 4:
            lu, ld = math.log(up / nom), math.log(dn / nom)
            scale1 = 1 + abs(lu) * (up / nom) ** edge + abs(ld) * (dn / nom) ** edge
            scale2 = 1 + lu * lu * (up / nom) ** edge + ld * ld * (dn / nom) ** edge
            coef = R.code4_coefficients(dn, nom, up, alpha0)
            big = sum(abs(c) * (i + 1) ** 2 * edge ** max(i - 1, 0) for i, c in enumerate(coef))
            scale1 += big
            scale2 += big
        else:
            scale1 = scale2 = (abs(up - nom) + abs(nom - dn)) * 40 + 1e-30
        for bp in (edge, -edge):
            left, right = math.nextafter(bp, -math.inf), math.nextafter(bp, math.inf)
            g = {x: (float(d1(x)), float(d2(x))) for x in (left, bp, right)}
            for x in (left, bp, right):
                if not all(math.isfinite(v) for v in g[x]):
                    ctx.fail(f"C03/{cname}/derivative_not_finite", alpha=x, triple=case["triple"])
                    return
            side = "+" if bp > 0 else "-"
            ctx.close("C1", g[left][0], g[right][0], 1e-10 * scale1, f"C03/{cname}/C1/{side}",
                      triple=case["triple"], alpha0=alpha0)
            ctx.close("C1", g[bp][0], g[right][0] if bp > 0 else g[left][0], 1e-10 * scale1,
                      f"C03/{cname}/C1/{side}", triple=case["triple"], alpha0=alpha0)
            ctx.close("C2", g[left][1], g[right][1], 1e-10 * scale2, f"C03/{cname}/C2/{side}",
                      triple=case["triple"], alpha0=alpha0)
            # extrapolation slope / exponent of the matching side
            if code == 4:
                base = up / nom if bp > 0 else dn / nom
                want = math.log(base) * base ** abs(right if bp > 0 else left) * (1 if bp > 0 else -1)
                out = right if bp > 0 else left
                ctx.close("slope", g[out][0], want, 1e-9 * scale1, f"C03/{cname}/extrapolation_slope/{side}",
                          triple=case["triple"], alpha0=alpha0)
            else:
                want = (up - nom) if bp > 0 else (nom - dn)
                out = right if bp > 0 else left
                ctx.close("slope", g[out][0], want, 1e-9 * scale1, f"C03/{cname}/extrapolation_slope/{side}",
                          triple=case["triple"], alpha0=alpha0)
        ctx.label(cname, "derivative_check", f"alpha0={alpha0}")
        ctx.nontrivial([cname, alpha0, case["triple"]])
    finally:
        backends.reset()

"""C18 - export to HistFactory XML+ROOT and re-import preserves the statistical model."""
import copy
import math
import os
import shutil
import tempfile

from hypothesis import strategies as st

from vlib import backends, gen_spec
from vlib.gen_spec import nice_float
from vlib.refmodel import RefModel, pars_to_flat

ID = "C18"
LEVEL = "exploration"
RULE = (
    "Model-based history generation: Hypothesis draws 1-3 exportable workspaces (all seven modifier types, "
    "lumi central value != 1, custom normfactor init/bounds, fixed scalar parameters, 1-3 measurements, a "
    "sample with negative yields, sometimes a same-structure twin of workspace 0 with other yields) and "
    "a list of 2-7 operations {export workspace i into directory d, import directory d} over 2 temporary "
    "directories; after every import the parsed workspace must be the *latest* export into that directory: "
    "same channels, samples, yields, observations, POI, constant flags (names modulo staterror_<channel>), "
    "modifier data within 1e-9 relative, lumi auxdata/sigma recovered, and for every measurement the same "
    "log-density at a generated (theta, data) point with parameters matched by name. Non-trivial: lumi "
    "!= 1, a fixed parameter, >=2 measurements or re-export into a used directory; distinct by hash of "
    "(workspaces, operation list)."
)
ASSUMPTIONS = [
    "exportable = what HistFactory XML can express: no measurement-level overrides other than normfactor "
    "inits/bounds (identical in all measurements), boolean 'fixed' for scalar parameters and the lumi settings",
    "the harness never calls readxml.clear_filecache() (that would hide stale-cache defects)",
    "temporary directories live under the system temp dir and are removed after every case",
]


def shards(tier):
    q = tier == "quick"
    return [{"name": f"xml{i}", "examples": 110 if q else 1200} for i in range(16)]


@st.composite
def exportable(draw):
    spec = draw(gen_spec.specs(max_channels=2, max_bins=3, max_samples=3, overrides=False, histosys_rel=0.25,
                               allow_zero=draw(st.booleans())))
    # relative uncertainties cannot express a non-zero uncertainty on a zero-yield bin
    for c in spec["channels"]:
        for smp in c["samples"]:
            for m in smp["modifiers"]:
                if m["type"] in ("staterror", "shapesys"):
                    m["data"] = [u if v != 0 else 0.0 for u, v in zip(m["data"], smp["data"])]
    # a negative-yield (interference-like) sample whose bins are outweighed by the other samples
    if draw(st.integers(0, 3)) == 0:
        for c in spec["channels"]:
            cands = [x for x in c["samples"] if not any(m["type"] in ("histosys", "shapesys") for m in x["modifiers"])]
            if len(c["samples"]) >= 2 and cands:
                smp = cands[draw(st.integers(0, len(cands) - 1))]
                others = [x for x in c["samples"] if x is not smp]
                floor = [sum(o["data"][b] for o in others) for b in range(len(smp["data"]))]
                # keep the other samples' rate well above the negative one at every generated point
                if all(not o["modifiers"] or all(m["type"] in ("staterror", "lumi") for m in o["modifiers"]) for o in others):
                    smp["data"] = [float(f"{-0.1 * f:.6g}") if (f > 0 and draw(st.booleans())) else v
                                   for v, f in zip(smp["data"], floor)]
                    break
    ref = RefModel(spec)
    names = sorted(ref.params)
    # only genuinely scalar parameter types can be declared constant in HistFactory XML
    scalars = [n for n in names if ref.params[n].kinds <= {"normfactor", "normsys", "histosys", "lumi"}]
    nfs = [n for n in scalars if ref.params[n].kinds == {"normfactor"}]
    lumi_ent = [p for p in spec["parameters"] if p["name"] == "lumi"]
    if lumi_ent:
        lum = draw(st.sampled_from([1.0, 2.0, 0.5, 3.5, 140.0]))
        rel = draw(nice_float(0.01, 0.1))
        sig = float(f"{lum * rel:.6g}")
        lumi_ent = [{"name": "lumi", "auxdata": [lum], "sigmas": [sig], "inits": [lum],
                     "bounds": [[lum - 5 * sig, lum + 5 * sig]]}]
    nf_cfg = []
    for n in nfs:
        if draw(st.booleans()):
            lo = draw(st.sampled_from([0.0, -2.0, 0.5]))
            hi = draw(st.sampled_from([10.0, 5.0, 20.0]))
            nf_cfg.append({"name": n, "inits": [draw(st.sampled_from([1.0, 0.75, 2.0]))], "bounds": [[lo, hi]]})
    nm = draw(st.integers(1, 3))
    measurements = []
    for i in range(nm):
        params = copy.deepcopy(lumi_ent) + copy.deepcopy(nf_cfg)
        for n in scalars:
            if draw(st.integers(0, 5)) == 0:
                ent = [p for p in params if p["name"] == n]
                if ent:
                    ent[0]["fixed"] = True
                elif n != "lumi":
                    params.append({"name": n, "fixed": True})
        poi_pool = nfs or [n for n in scalars if n != "lumi"]
        poi = draw(st.sampled_from(poi_pool)) if poi_pool else (scalars[0] if scalars else "")
        measurements.append({"name": ["meas", "alt", "third"][i], "config": {"poi": poi, "parameters": params}})
    nominal = ref.expected_main({n: (p.inits if p.inits else [lumi_ent[0]["inits"][0]]) for n, p in ref.params.items()}
                                if not lumi_ent else dict(ref.inits(), lumi=lumi_ent[0]["inits"]))
    obs = []
    for c in draw(st.permutations(ref.channels)):
        obs.append({"name": c, "data": [float(max(0, round(v + draw(st.integers(-3, 3))))) if v == v else 1.0 for v in nominal[c]]})
    ws = {"channels": spec["channels"], "measurements": measurements, "observations": obs, "version": "1.0.0"}
    # a generated evaluation point (by name) and dataset
    ref0 = RefModel(gen_spec.model_spec_of(ws, 0))
    pars = draw(gen_spec.points(ref0, positive=True, max_alpha=1.5, at_init_prob=0.2))
    return {"ws": ws, "pars": pars}


@st.composite
def strategy_(draw, shard):
    pool = [draw(exportable()) for _ in range(draw(st.integers(1, 3)))]
    if draw(st.integers(0, 2)) == 0:
        # same structure, other yields: a re-export into a used directory rewrites files of (nearly) the same size
        twin = copy.deepcopy(pool[0])
        k = draw(st.sampled_from([2.0, 0.5, 3.0]))
        for c in twin["ws"]["channels"]:
            for smp in c["samples"]:
                smp["data"] = [v * k for v in smp["data"]]
        pool.append(twin)
    ops = [{"op": "export", "ws": 0, "dir": 0}]
    for _ in range(draw(st.integers(1, 6))):
        if draw(st.integers(0, 2)) == 0:
            ops.append({"op": "export", "ws": draw(st.integers(0, len(pool) - 1)), "dir": draw(st.integers(0, 1))})
        else:
            ops.append({"op": "import", "dir": draw(st.integers(0, 1))})
    ops.append({"op": "import", "dir": 0})
    return {"pool": pool, "ops": ops}


def strategy(shard):
    return strategy_(shard)


def _close(a, b, rel=1e-9):
    return abs(a - b) <= rel * (1 + abs(a) + abs(b))


def _export(pyhf, ws, outdir):
    os.makedirs(os.path.join(outdir, "config"), exist_ok=True)
    os.makedirs(os.path.join(outdir, "data"), exist_ok=True)
    xml = pyhf.writexml.writexml(copy.deepcopy(ws), os.path.join(outdir, "config"), os.path.join(outdir, "data"), "FitConfig")
    with open(os.path.join(outdir, "FitConfig.xml"), "wb") as fh:
        fh.write(xml)


def _import(pyhf, outdir):
    return pyhf.readxml.parse(os.path.join(outdir, "FitConfig.xml"), outdir)


def compare(ctx, pyhf, item, parsed, reexport):
    """parsed workspace vs. the original item['ws']"""
    ws = item["ws"]
    tag = "reexport" if reexport else "first"
    oc = {c["name"]: c for c in ws["channels"]}
    pc = {c["name"]: c for c in parsed["channels"]}
    if sorted(oc) != sorted(pc):
        ctx.fail(f"C18/{tag}/channels_differ", got=sorted(pc), want=sorted(oc))
        return
    for cn in oc:
        osamp = {s["name"]: s for s in oc[cn]["samples"]}
        psamp = {s["name"]: s for s in pc[cn]["samples"]}
        if sorted(osamp) != sorted(psamp):
            ctx.fail(f"C18/{tag}/samples_differ", channel=cn, got=sorted(psamp), want=sorted(osamp))
            return
        for sn in osamp:
            a, b = osamp[sn], psamp[sn]
            if len(a["data"]) != len(b["data"]) or not all(_close(x, y) for x, y in zip(a["data"], b["data"])):
                ctx.fail(f"C18/{tag}/nominal_yields_differ", channel=cn, sample=sn, got=b["data"], want=a["data"])
            am = {(m["type"], m["name"]): m for m in a["modifiers"]}
            bm = {(m["type"], m["name"]): m for m in b["modifiers"]}
            if sorted(am) != sorted(bm):
                ctx.fail(f"C18/{tag}/modifiers_differ", channel=cn, sample=sn, got=sorted(map(list, bm)), want=sorted(map(list, am)))
                continue
            for k, m in am.items():
                d1, d2 = m["data"], bm[k]["data"]
                if k[0] == "normsys":
                    ok = _close(d1["lo"], d2["lo"]) and _close(d1["hi"], d2["hi"])
                elif k[0] == "histosys":
                    ok = all(_close(x, y) for x, y in zip(d1["lo_data"], d2["lo_data"])) and all(
                        _close(x, y) for x, y in zip(d1["hi_data"], d2["hi_data"]))
                elif k[0] in ("shapesys", "staterror"):
                    # uncertainties on zero-yield bins cannot be expressed relatively: they carry no information
                    ok = all(_close(x, y) or nom == 0 for x, y, nom in zip(d1, d2, a["data"]))
                else:
                    ok = d1 is None and d2 is None
                if not ok:
                    ctx.fail(f"C18/{tag}/modifier_data_differ/{k[0]}", channel=cn, sample=sn, got=d2, want=d1)
    oo = {o["name"]: o["data"] for o in ws["observations"]}
    po = {o["name"]: o["data"] for o in parsed["observations"]}
    if sorted(oo) != sorted(po) or any(not all(_close(x, y) for x, y in zip(oo[k], po[k])) or len(oo[k]) != len(po[k]) for k in oo):
        ctx.fail(f"C18/{tag}/observations_differ", got=po, want=oo)
    om = {m["name"]: m for m in ws["measurements"]}
    pm = {m["name"]: m for m in parsed["measurements"]}
    if sorted(om) != sorted(pm):
        ctx.fail(f"C18/{tag}/measurements_differ", got=sorted(pm), want=sorted(om))
        return
    for mn, m in om.items():
        p = pm[mn]
        if m["config"]["poi"] != p["config"]["poi"]:
            ctx.fail(f"C18/{tag}/poi_differs", measurement=mn, got=p["config"]["poi"], want=m["config"]["poi"])
        of = sorted(e["name"] for e in m["config"]["parameters"] if e.get("fixed"))
        pf = sorted(e["name"] for e in p["config"]["parameters"] if e.get("fixed"))
        if of != pf:
            ctx.fail(f"C18/{tag}/constant_flags_differ", measurement=mn, got=pf, want=of)
        ol = [e for e in m["config"]["parameters"] if e["name"] == "lumi"]
        pl = [e for e in p["config"]["parameters"] if e["name"] == "lumi"]
        if ol:
            if not pl or not _close(pl[0]["auxdata"][0], ol[0]["auxdata"][0]):
                ctx.fail(f"C18/{tag}/lumi_central_value", measurement=mn, got=pl and pl[0].get("auxdata"), want=ol[0]["auxdata"])
            elif not _close(pl[0]["sigmas"][0], ol[0]["sigmas"][0]):
                ctx.fail(f"C18/{tag}/lumi_uncertainty", measurement=mn, got=pl[0]["sigmas"], want=ol[0]["sigmas"],
                         lumi=ol[0]["auxdata"][0])
        # likelihood at the generated point
        try:
            m1 = pyhf.Workspace(copy.deepcopy(ws)).model(measurement_name=mn, poi_name=None)
            w2 = pyhf.Workspace(copy.deepcopy(parsed))
            m2 = w2.model(measurement_name=mn, poi_name=None)
        except Exception as exc:  # noqa: BLE001
            ctx.fail(f"C18/{tag}/model_of_parsed_workspace/raises_{type(exc).__name__}", measurement=mn, message=str(exc)[:200])
            continue
        ref = RefModel(gen_spec.model_spec_of(ws, ws["measurements"].index(m)))
        pars = dict(item["pars"])
        if not ref.rates_safely_positive({n: pars[n] for n in ref.params}):
            continue
        if sorted(m1.config.par_order) != sorted(m2.config.par_order):
            ctx.fail(f"C18/{tag}/parameter_names_differ", got=sorted(m2.config.par_order), want=sorted(m1.config.par_order))
            continue
        d1 = pyhf.Workspace(copy.deepcopy(ws)).data(m1)
        d2 = w2.data(m2)
        l1 = float(backends.tonp(m1.logpdf(pars_to_flat(m1.config, pars), d1))[0])
        l2 = float(backends.tonp(m2.logpdf(pars_to_flat(m2.config, pars), d2))[0])
        if math.isfinite(l1) and not _close(l1, l2, 1e-9):
            ctx.fail(f"C18/{tag}/likelihood_differs", measurement=mn, got=l2, want=l1)


def run_case(case, ctx):
    import pyhf
    import pyhf.readxml
    import pyhf.writexml

    backends.use("numpy")
    dirs = [tempfile.mkdtemp(prefix="pyhf_c18_") for _ in range(2)]
    latest = {0: None, 1: None}
    nexports = {0: 0, 1: 0}
    reexp = False
    try:
        for op in case["ops"]:
            d = op["dir"]
            if op["op"] == "export":
                item = case["pool"][op["ws"] % len(case["pool"])]
                try:
                    _export(pyhf, item["ws"], dirs[d])
                except Exception as exc:  # noqa: BLE001
                    from vlib.ctx import innermost_pyhf_frame

                    w = innermost_pyhf_frame(exc)
                    if w is None:
                        raise
                    ctx.fail(f"C18/export/raises/{type(exc).__name__}@{w[0]}:{w[1]}", message=str(exc)[:200])
                    return
                latest[d] = item
                nexports[d] += 1
            else:
                if latest[d] is None:
                    continue
                try:
                    parsed = _import(pyhf, dirs[d])
                except Exception as exc:  # noqa: BLE001
                    from vlib.ctx import innermost_pyhf_frame

                    w = innermost_pyhf_frame(exc)
                    if w is None:
                        raise
                    ctx.fail(f"C18/import/raises/{type(exc).__name__}@{w[0]}:{w[1]}", message=str(exc)[:200])
                    return
                re_ = nexports[d] > 1
                reexp = reexp or re_
                compare(ctx, pyhf, latest[d], parsed, re_)
        pool = case["pool"]
        lum = any(p["name"] == "lumi" and p["auxdata"][0] != 1.0 for it in pool for m in it["ws"]["measurements"] for p in m["config"]["parameters"])
        fixed = any(p.get("fixed") for it in pool for m in it["ws"]["measurements"] for p in m["config"]["parameters"])
        multi = any(len(it["ws"]["measurements"]) > 1 for it in pool)
        for lab, v in (("lumi_ne_1", lum), ("fixed_parameter", fixed), ("several_measurements", multi), ("reexport_into_used_directory", reexp)):
            if v:
                ctx.label(lab)
        if lum or fixed or multi or reexp:
            ctx.nontrivial([case["ops"], [it["ws"] for it in pool]])
    finally:
        for d in dirs:
            shutil.rmtree(d, ignore_errors=True)
        backends.reset()

"""C20 - structurally inconsistent specifications are refused, never partly evaluated."""
import copy

from hypothesis import strategies as st

from vlib import backends, gen_spec
from vlib.refmodel import RefModel

ID = "C20"
LEVEL = "fault_enumeration"
RULE = (
    "A well-formed generated spec + one structural fault (thorough: also pairs) from the catalogue F1 "
    "duplicate channel, F2 duplicate sample (each with changed yields or as an identical copy), F3 duplicated (name,type) modifier with different data, F4 "
    "sample length, F5 modifier data length (F5c: a compensating long/short pair across channels), F6 bin-wise modifier shared across different widths / "
    "staterror across channels on different samples / shapesys reuse, F7 one name with conflicting "
    "constraint types, F8 override of the wrong length, F9 undefined or multi-component POI, F10 lumi "
    "without (complete) settings, at a generated position; plus exhaustive enumeration of every (fault x "
    "position) on a fixed 2-channel spec. Oracle: pyhf.Model(spec) and pyhf.Workspace(ws).model() raise "
    "one of InvalidSpecification/InvalidModel/InvalidModifier/InvalidNameReuse; acceptance or any other "
    "exception type is a violation. Non-trivial: fault outside the first listed channel/sample or spec "
    "with >=2 channels; distinct by (fault, variant, position, shape signature)."
)
ASSUMPTIONS = [
    "a staterror of one name on the *same* sample names in several channels is a consistent model (one "
    "gamma per bin) and is not injected as a fault",
    "an identical duplicate of a data-less modifier is not a fault ('with different data')",
]
FAULTS = ["F1", "F2", "F3", "F4", "F5", "F5c", "F6a", "F6b", "F6c", "F7", "F8", "F9", "F10"]
EXHAUSTIVE = False


def shards(tier):
    q = tier == "quick"
    out = [{"name": f"gen{i}", "examples": 420 if q else 5000, "pairs": False} for i in range(12)]
    if not q:
        out += [{"name": f"pairs{i}", "examples": 4000, "pairs": True} for i in range(3)]
    else:
        out.append({"name": "pairs0", "examples": 300, "pairs": True})
    out.append({"name": "grid", "kind": "enum"})
    out += [{"name": f"fuzz{i}", "kind": "fuzz", "runs": 400 if q else 6000, "pairs": i == 1} for i in range(1 if q else 2)]
    return out


@st.composite
def strategy_(draw, shard):
    spec = draw(gen_spec.specs(max_channels=3, max_bins=3, overrides=draw(st.booleans())))
    faults = [draw(st.sampled_from(FAULTS))]
    if shard.get("pairs"):
        # F6a (shapefactor width) is a recorded known finding: excluded from pairs by construction so
        # that the search continues behind it (single-fault F6a cases still run and are matched by signature)
        faults = [draw(st.sampled_from([f for f in FAULTS if f != "F6a"])),
                  draw(st.sampled_from([f for f in FAULTS if f != "F6a"]))]
    picks = [[draw(st.integers(0, 1000)) for _ in range(4)] for _ in faults]
    return {"spec": spec, "faults": faults, "picks": picks}


def strategy(shard):
    return strategy_(shard)


GRID_SPEC = {
    "channels": [
        {"name": "SR", "samples": [
            {"name": "sig", "data": [5.0, 6.0], "modifiers": [
                {"name": "mu", "type": "normfactor", "data": None},
                {"name": "lumi", "type": "lumi", "data": None},
                {"name": "sys_a", "type": "normsys", "data": {"lo": 0.9, "hi": 1.1}}]},
            {"name": "bkg1", "data": [50.0, 60.0], "modifiers": [
                {"name": "hsys_a", "type": "histosys", "data": {"lo_data": [45.0, 55.0], "hi_data": [55.0, 66.0]}},
                {"name": "staterror_SR", "type": "staterror", "data": [5.0, 6.0]},
                {"name": "shape_SR_bkg1", "type": "shapesys", "data": [4.0, 3.0]}]}]},
        {"name": "CR", "samples": [
            {"name": "bkg1", "data": [100.0, 90.0, 80.0], "modifiers": [
                {"name": "sf_a", "type": "shapefactor", "data": None},
                {"name": "sys_a", "type": "normsys", "data": {"lo": 0.95, "hi": 1.05}}]},
            {"name": "bkg2", "data": [10.0, 9.0, 8.0], "modifiers": [
                {"name": "staterror_CR", "type": "staterror", "data": [1.0, 1.0, 1.0]},
                {"name": "lumi", "type": "lumi", "data": None}]}]},
    ],
    "parameters": [
        {"name": "lumi", "auxdata": [1.0], "sigmas": [0.02], "inits": [1.0], "bounds": [[0.0, 10.0]]},
        {"name": "sys_a", "inits": [0.1]},
    ],
}


def cases(shard):
    for f in FAULTS:
        seen = set()
        for a in range(12):
            for b in range(6):
                for c in range(4):
                    sp = copy.deepcopy(GRID_SPEC)
                    r = apply_fault(sp, f, [a, b, c, 0])
                    if r is None:
                        continue
                    key = repr(r[1])
                    if key in seen:
                        continue
                    seen.add(key)
                    yield {"spec": copy.deepcopy(GRID_SPEC), "faults": [f], "picks": [[a, b, c, 0]]}


# --------------------------------------------------------------------------------------------------
def _positions(spec):
    return [(ci, si) for ci, c in enumerate(spec["channels"]) for si, _ in enumerate(c["samples"])]


def apply_fault(spec, fault, pick):
    """Mutates spec in place; returns (poi_name or None, description dict) or None if not applicable."""
    chans = spec["channels"]
    a, b, c, d = pick
    nb = [len(ch["samples"][0]["data"]) for ch in chans]
    pos = _positions(spec)
    ci, si = pos[a % len(pos)]
    ch, smp = chans[ci], chans[ci]["samples"][si]
    later = ci > 0 or si > 0
    if fault == "F1":
        dup = copy.deepcopy(ch)
        if c % 3:
            for s in dup["samples"]:
                s["data"] = [v * 2 + 1 for v in s["data"]]
                s["modifiers"] = [m for m in s["modifiers"] if m["type"] != "shapesys"]
        chans.insert((b % (len(chans) + 1)), dup)
        return None, {"fault": "F1", "variant": "dup_channel" + ("" if c % 3 else "_identical_copy"),
                      "channel": ch["name"], "later": ci > 0}
    if fault == "F2":
        dup = copy.deepcopy(smp)
        if c % 3:
            dup["data"] = [v * 2 + 1 for v in dup["data"]]
            dup["modifiers"] = [m for m in dup["modifiers"] if m["type"] not in ("shapesys", "staterror")] if b % 2 else []
        ch["samples"].insert(b % (len(ch["samples"]) + 1), dup)
        return None, {"fault": "F2", "variant": "dup_sample_" + ("identical_copy" if not c % 3 else "mods" if b % 2 else "bare"),
                      "channel": ch["name"], "sample": smp["name"], "later": later}
    if fault == "F3":
        cands = [m for m in smp["modifiers"] if m["type"] in ("normsys", "histosys", "staterror", "shapesys")]
        if not cands:
            return None
        m = cands[b % len(cands)]
        dup = copy.deepcopy(m)
        if m["type"] == "normsys":
            dup["data"]["hi"] = dup["data"]["hi"] * 1.5 + 0.1
        elif m["type"] == "histosys":
            dup["data"]["hi_data"] = [v * 1.5 + 1 for v in dup["data"]["hi_data"]]
        else:
            dup["data"] = [v * 1.5 + 1 for v in dup["data"]]
        smp["modifiers"].insert(c % (len(smp["modifiers"]) + 1), dup)
        return None, {"fault": "F3", "variant": m["type"], "later": later}
    if fault == "F4":
        if len(ch["samples"]) < 2:
            return None
        if b % 2 and len(smp["data"]) > 1:
            smp["data"] = smp["data"][:-1]
            v = "shorter"
        else:
            smp["data"] = smp["data"] + [3.0]
            v = "longer"
        return None, {"fault": "F4", "variant": v + ("_first_listed" if si == 0 else "_other"), "later": later}
    if fault == "F5":
        cands = [m for m in smp["modifiers"] if m["type"] in ("histosys", "staterror", "shapesys")]
        if not cands:
            return None
        m = cands[b % len(cands)]
        grow = c % 2 == 0
        if m["type"] == "histosys":
            key = ["lo_data", "hi_data"][(c // 2) % 2]
            if grow:
                m["data"][key] = m["data"][key] + [1.0]
            elif len(m["data"][key]) > 1:
                m["data"][key] = m["data"][key][:-1]
            else:
                return None
            return None, {"fault": "F5", "variant": f"histosys_{key}_{'long' if grow else 'short'}", "later": later}
        if grow:
            m["data"] = m["data"] + [1.0]
        elif len(m["data"]) > 1:
            m["data"] = m["data"][:-1]
        else:
            return None
        return None, {"fault": "F5", "variant": f"{m['type']}_{'long' if grow else 'short'}", "later": later}
    if fault == "F5c":
        # two cooperating length faults: one histosys (same sample name, same modifier name) is one bin too
        # long in one channel and one bin too short in another, so that the totals over all channels agree
        byname = {}
        for cj, chj in enumerate(chans):
            for sj, sm in enumerate(chj["samples"]):
                byname.setdefault(sm["name"], []).append((cj, sj))
        multi = sorted(n for n, v in byname.items() if len({cj for cj, _ in v}) >= 2)
        if not multi:
            return None
        sname = multi[a % len(multi)]
        places = byname[sname]
        (c1, s1), (c2, s2) = places[b % len(places)], places[(b + 1 + c % (len(places) - 1)) % len(places)]
        if c1 == c2 or nb[c2] < 2:
            (c1, s1), (c2, s2) = (c2, s2), (c1, s1)
        if c1 == c2 or nb[c2] < 2:
            return None
        key = ["hi_data", "lo_data"][d % 2]
        for (cj, sj), delta in (((c1, s1), +1), ((c2, s2), -1)):
            sm = chans[cj]["samples"][sj]
            sm["modifiers"] = [m for m in sm["modifiers"] if not (m["type"] == "histosys" and m["name"] == "hsys_comp")]
            lo_d = [v * 0.9 for v in sm["data"]]
            hi_d = [v * 1.1 for v in sm["data"]]
            tgt = hi_d if key == "hi_data" else lo_d
            if delta > 0:
                tgt.append(999.0)
            else:
                tgt.pop()
            sm["modifiers"].append({"name": "hsys_comp", "type": "histosys", "data": {"lo_data": lo_d, "hi_data": hi_d}})
        return None, {"fault": "F5c", "variant": f"histosys_{key}_compensating_across_channels", "later": True}
    if fault == "F6a":
        # shapefactor shared between channels of different width
        others = [j for j in range(len(chans)) if nb[j] != nb[ci]]
        if not others:
            return None
        cj = others[b % len(others)]
        s2 = chans[cj]["samples"][c % len(chans[cj]["samples"])]
        for s in (smp, s2):
            s["modifiers"].append({"name": "sf_mismatch", "type": "shapefactor", "data": None})
        first = sorted([ch["name"], chans[cj]["name"]])[0]
        smaller_first = nb[[x["name"] for x in chans].index(first)] == min(nb[ci], nb[cj])
        return None, {"fault": "F6a", "variant": "shapefactor_" + ("smaller_first" if smaller_first else "larger_first"),
                      "later": later}
    if fault == "F6b":
        # one staterror name on different samples of different channels
        others = [(cj, sj) for cj, sj in pos if cj != ci and chans[cj]["samples"][sj]["name"] != smp["name"]]
        others = [(cj, sj) for cj, sj in others
                  if not any(s["name"] == smp["name"] for s in chans[cj]["samples"]) or True]
        if not others:
            return None
        cj, sj = others[b % len(others)]
        s2 = chans[cj]["samples"][sj]
        for s, n in ((smp, nb[ci]), (s2, nb[cj])):
            s["modifiers"] = [m for m in s["modifiers"] if m["type"] != "staterror"]
            s["modifiers"].append({"name": "stat_cross", "type": "staterror", "data": [1.0] * n})
        return None, {"fault": "F6b", "variant": "staterror_cross_channel_" + ("same_width" if nb[ci] == nb[cj] else "diff_width"),
                      "later": later}
    if fault == "F6c":
        if len(pos) < 2:
            return None
        cj, sj = pos[(a + 1 + b % (len(pos) - 1)) % len(pos)]
        s2 = chans[cj]["samples"][sj]
        if s2 is smp:
            return None
        smp["modifiers"].append({"name": "shape_reused", "type": "shapesys", "data": [1.0] * nb[ci]})
        s2["modifiers"].append({"name": "shape_reused", "type": "shapesys", "data": [1.0] * nb[cj]})
        return None, {"fault": "F6c", "variant": "shapesys_reuse_" + ("same_channel" if ci == cj else "other_channel"),
                      "later": later}
    if fault == "F7":
        mods = [(s, m) for ch_ in chans for s in ch_["samples"] for m in s["modifiers"]]
        if not mods:
            return None
        s0, m = mods[b % len(mods)]
        compat = {"normsys": {"histosys"}, "histosys": {"normsys"}}
        targets = [t for t in ("normfactor", "normsys", "histosys", "shapefactor", "staterror", "shapesys")
                   if t != m["type"] and t not in compat.get(m["type"], set())]
        t = targets[c % len(targets)]
        n = nb[ci]
        data = {"normfactor": None, "shapefactor": None, "normsys": {"lo": 0.9, "hi": 1.1},
                "histosys": {"lo_data": [v * 0.9 for v in smp["data"]], "hi_data": [v * 1.1 for v in smp["data"]]},
                "staterror": [1.0] * n, "shapesys": [1.0] * n}[t]
        if any(x["name"] == m["name"] and x["type"] == t for x in smp["modifiers"]):
            return None
        if t == "staterror":
            smp["modifiers"] = [x for x in smp["modifiers"] if x["type"] != "staterror"]
        smp["modifiers"].append({"name": m["name"], "type": t, "data": data})
        return None, {"fault": "F7", "variant": f"{m['type']}_vs_{t}", "later": later}
    if fault == "F8":
        ref = RefModel(spec)
        names = sorted(ref.params)
        p = ref.params[names[b % len(names)]]
        keys = ["inits", "bounds"]
        if p.constraint:
            keys.append("auxdata")
        if p.kinds == {"staterror"} or p.kinds == {"lumi"}:
            keys.append("sigmas")
        if p.kinds == {"shapesys"}:
            keys.append("factors")
        k = keys[c % len(keys)]
        n_bad = p.n + 1 if (d % 2 == 0 or p.n == 1) else p.n - 1
        val = {"inits": [1.0] * n_bad, "bounds": [[0.0, 5.0]] * n_bad, "auxdata": [1.0] * n_bad,
               "sigmas": [0.1] * n_bad, "factors": [10.0] * n_bad}[k]
        plist = spec.setdefault("parameters", [])
        ent = [e for e in plist if e["name"] == p.name]
        if ent:
            ent[0][k] = val
        else:
            plist.append({"name": p.name, k: val})
        return None, {"fault": "F8", "variant": f"{'+'.join(sorted(p.kinds))}_{k}_{'long' if n_bad > p.n else 'short'}",
                      "later": True}
    if fault == "F9":
        ref = RefModel(spec)
        multi = sorted(n for n, p in ref.params.items() if p.n > 1)
        if b % 2 and multi:
            return multi[c % len(multi)], {"fault": "F9", "variant": "multi_component_poi", "later": True}
        return "no_such_parameter", {"fault": "F9", "variant": "undefined_poi", "later": True}
    if fault == "F10":
        plist = spec.setdefault("parameters", [])
        has = any(m["type"] == "lumi" for ch_ in chans for s in ch_["samples"] for m in s["modifiers"])
        if not has:
            smp["modifiers"].append({"name": "lumi", "type": "lumi", "data": None})
        ent = [e for e in plist if e["name"] == "lumi"]
        variant = ["absent", "no_sigmas", "no_auxdata", "no_inits", "no_bounds"][b % 5]
        for e in ent:
            plist.remove(e)
        if variant != "absent":
            full = {"name": "lumi", "auxdata": [1.0], "sigmas": [0.02], "inits": [1.0], "bounds": [[0.0, 10.0]]}
            del full[variant[3:]]
            plist.append(full)
        return None, {"fault": "F10", "variant": "lumi_" + variant, "later": later}
    raise ValueError(fault)


def run_case(case, ctx):
    import pyhf
    from pyhf import exceptions as E

    allowed = (E.InvalidSpecification, E.InvalidModel, E.InvalidModifier, E.InvalidNameReuse)
    spec = copy.deepcopy(case["spec"])
    spec.setdefault("parameters", [])
    descs = []
    poi = None
    if len(case["faults"]) == 2 and case["faults"][0] == case["faults"][1] and case["faults"][0] in ("F4", "F5"):
        npos = len(_positions(spec))
        if case["picks"][0][0] % npos == case["picks"][1][0] % npos:
            ctx.discard("two length faults on the same sample can cancel each other")
    for f, pick in zip(case["faults"], case["picks"]):
        try:
            r = apply_fault(spec, f, pick)
        except (KeyError, ValueError, IndexError):
            r = None  # the first fault made the second one inapplicable
        if r is None:
            continue
        poi = r[0] or poi
        descs.append(r[1])
    if not descs:
        ctx.discard("fault not applicable to this spec")
    if any(d["fault"] == "F6b" for d in descs):
        carriers = {(c["name"], s["name"]) for c in spec["channels"] for s in c["samples"]
                    for m in s["modifiers"] if m["name"] == "stat_cross"}
        by_sample = {}
        for cn, sn in carriers:
            by_sample.setdefault(sn, set()).add(cn)
        if len({frozenset(v) for v in by_sample.values()}) < 2:
            ctx.discard("second fault turned the cross-channel staterror into a consistent one")
    orig = copy.deepcopy(case["spec"])
    orig.setdefault("parameters", [])
    if spec == orig and poi is None:
        ctx.discard("the two injected faults cancel each other (spec unchanged)")
    tag = "+".join(f"{d['fault']}_{d['variant']}" for d in descs)
    backends.use("numpy")
    try:
        schema_ok = True
        try:
            pyhf.schema.validate(spec, "model.json")
        except E.InvalidSpecification:
            schema_ok = False
        ctx.label("schema_" + ("passes" if schema_ok else "rejects"))
        if poi is None:
            # choose an existing scalar parameter as POI when one exists
            try:
                ref = RefModel(case["spec"])
                sc = sorted(n for n, p in ref.params.items() if p.n == 1 and p.kinds == {"normfactor"})
                poi = sc[0] if sc else None
            except Exception:  # noqa: BLE001
                poi = None
        # entry point 1: pyhf.Model
        outcome = _try(lambda: pyhf.Model(copy.deepcopy(spec), poi_name=poi), allowed)
        if outcome != "refused":
            ctx.fail(f"C20/{tag}/Model/{outcome}", faults=descs)
        # entry point 2: pyhf.Workspace(...).model()
        ws = {"channels": spec["channels"],
              "measurements": [{"name": "meas", "config": {"poi": poi or "", "parameters": spec["parameters"]}}],
              "observations": [{"name": n, "data": [1.0] * len(next(c for c in spec["channels"] if c["name"] == n)["samples"][0]["data"])}
                               for n in dict.fromkeys(c["name"] for c in spec["channels"])],
              "version": "1.0.0"}
        outcome2 = _try(lambda: pyhf.Workspace(copy.deepcopy(ws)).model(), allowed)
        if outcome2 != "refused":
            ctx.fail(f"C20/{tag}/Workspace.model/{outcome2}", faults=descs)
        ctx.label(*[f"fault={d['fault']}" for d in descs], f"nfaults={len(descs)}")
        nch = len(case["spec"]["channels"])
        if any(d["later"] for d in descs) or nch >= 2:
            shape = [(c["name"], len(c["samples"][0]["data"]), len(c["samples"])) for c in case["spec"]["channels"]]
            ctx.nontrivial([tag, case["picks"], shape])
    finally:
        backends.reset()


def _try(fn, allowed):
    try:
        fn()
    except allowed:
        return "refused"
    except Exception as exc:  # noqa: BLE001
        return f"raises_{type(exc).__name__}"
    return "accepted"

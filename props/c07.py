"""C07 - asymptotic p-values follow the formulae of arXiv:1007.1727."""
import math
from unittest import mock

import mpmath as mp
from hypothesis import strategies as st

from vlib import backends, refstats

ID = "C07"
LEVEL = "exploration"
RULE = (
    "Hypothesis-generated (q, q_A) with q>=0, q_A>0 and all normal-cdf arguments <=37 in modulus "
    "(uniform / log-uniform bulk, q=0, q_A down to 1e-24, q=q_A and its 4 float neighbours on each side, the "
    "qtilde q>q_A region) x test statistic {q, qtilde, q0} x base distribution {normal, clipped_normal} x "
    "backend. (q, q_A) are injected by patching get_test_stat / generate_asimov_data at test time; the "
    "real teststatistic -> distributions -> pvalues -> expected_pvalues code runs. Oracle: 50-digit "
    "mpmath evaluation of the published formulae + ordering invariants + clipped-vs-unclipped identity + "
    "identity with a calculator instance that was used before for another (q, q_A). "
    "Non-trivial: qtilde with q>q_A, |q-q_A|<=4 ulp, a tail argument >8, or the clip active; distinct by "
    "(test_stat, base dist, backend, q, q_A)."
)
ASSUMPTIONS = [
    "injection depends on two internal names (pyhf.infer.utils.get_test_stat, "
    "pyhf.infer.calculators.generate_asimov_data); a missing name is a harness error",
    "tolerance: 64 eps (1 + x^2) relative on each tail probability, propagated to the ratio",
]
EPS = 2.0**-52
K = 64.0


def shards(tier):
    q = tier == "quick"
    out = []
    for be, n, ex in (("numpy", 6, 2500), ("pytorch", 3, 1500), ("jax", 3, 500), ("tensorflow", 3, 500)):
        for i in range(n):
            out.append({"name": f"{be}{i}", "backend": be, "examples": ex if q else ex * 25})
    return out


def logu(lo, hi):
    return st.floats(math.log(lo), math.log(hi)).map(math.exp)


def ulps(x, k):
    for _ in range(abs(k)):
        x = math.nextafter(x, math.inf if k > 0 else -math.inf)
    return x


@st.composite
def strategy_(draw, shard):
    qA = draw(st.one_of(logu(1e-6, 1200.0), st.floats(0.01, 40.0), logu(1e-24, 1e-6),
                        st.sampled_from([1.0, 4.0, 1e-8, 0.25, 1156.0, 1e-10, 1e-12, 1e-16, 1e-20])))
    kind = draw(st.integers(0, 9))
    if kind == 0:
        q = 0.0
    elif kind in (1, 2):
        q = ulps(qA, draw(st.integers(-4, 4)))
    elif kind in (3, 4):
        # q > qA region: (q + qA) / (2 sqrt(qA)) <= 37
        qmax = max(qA, 74.0 * math.sqrt(qA) - qA)
        q = draw(st.floats(qA, qmax))
    elif kind == 5:
        q = draw(logu(1e-9, 1369.0))
    else:
        q = draw(st.floats(0.0, 1369.0))
    return {"q": q, "qA": qA, "test_stat": draw(st.sampled_from(["qtilde", "qtilde", "q", "q0"])),
            "base": draw(st.sampled_from(["normal", "clipped_normal"])), "backend": shard["backend"]}


def strategy(shard):
    return strategy_(shard)


def _args(q, qA, ts):
    sq, sA = math.sqrt(q), math.sqrt(qA)
    if ts in ("q", "q0") or q <= qA:
        return [sq, sq - sA]
    return [(q + qA) / (2 * sA), (q - qA) / (2 * sA)]


def _run_calc(pyhf, tl, case, base, history=()):
    """history: (q, q_A) pairs evaluated on the same calculator instance before the case's own pair"""
    from pyhf.infer import calculators

    calls = []
    seq = [v for pair in list(history) + [(case["q"], case["qA"])] for v in pair]

    def stub_stat(poi, data, pdf, init_pars, par_bounds, fixed_params, return_fitted_pars=False):
        v = seq[len(calls)]
        calls.append(v)
        out = tl.astensor(v)
        if return_fitted_pars:
            return out, (tl.astensor([poi]), tl.astensor([poi]))
        return out

    def stub_asimov(asimov_mu, data, pdf, init_pars, par_bounds, fixed_params, return_fitted_pars=False):
        if return_fitted_pars:
            return tl.astensor([1.0]), tl.astensor([asimov_mu])
        return tl.astensor([1.0])

    if not hasattr(pyhf.infer.utils, "get_test_stat") or not hasattr(calculators, "generate_asimov_data"):
        raise RuntimeError("harness: internal names used for injection are missing")
    with mock.patch.object(pyhf.infer.utils, "get_test_stat", lambda name: stub_stat), \
            mock.patch.object(calculators, "generate_asimov_data", stub_asimov):
        calc = calculators.AsymptoticCalculator([1.0], object(), [1.0], [(0.0, 10.0)], [False],
                                                test_stat=case["test_stat"], calc_base_dist=base)
        for _ in history:
            ts0 = calc.teststatistic(0.5)
            sb0, b0 = calc.distributions(0.5)
            calc.pvalues(ts0, sb0, b0)
        ts = calc.teststatistic(1.0)
        sb, b = calc.distributions(1.0)
        obs = calc.pvalues(ts, sb, b)
        exp = calc.expected_pvalues(sb, b)
        exp_ts = [b.expected_value(n) for n in (2, 1, 0, -1, -2)]
    f = lambda v: float(backends.tonp(v))  # noqa: E731
    return f(ts), [f(v) for v in obs], [[f(v) for v in row] for row in exp], [f(v) for v in exp_ts]


def _tol_rel(x, extra=0.0):
    return K * EPS * (1 + x * x) + extra


def run_case(case, ctx):
    import pyhf

    q, qA, ts_name, base = case["q"], case["qA"], case["test_stat"], case["base"]
    args = _args(q, qA, ts_name)
    if any(abs(a) > 37 for a in args) or math.sqrt(qA) + 2 > 37 or qA <= 0 or q < 0:
        ctx.discard("a tail probability would not be representable (|argument| > 37)")
    tl = backends.use(case["backend"])
    try:
        sig = f"C07/{ts_name}"
        try:
            ts, obs, exp, exp_ts = _run_calc(pyhf, tl, case, base)
        except RuntimeError:
            raise
        except Exception as exc:  # noqa: BLE001
            from vlib.ctx import innermost_pyhf_frame

            w = innermost_pyhf_frame(exc)
            if w is None:
                raise
            ctx.fail(f"{sig}/raises/{type(exc).__name__}@{w[0]}:{w[1]}", message=str(exc)[:200])
            return
        branch = "q_le_qA" if (ts_name != "qtilde" or q <= qA) else "q_gt_qA"
        w_sb, w_b, w_s = refstats.asymptotic_pvalues(q, qA, ts_name)
        # conditioning of sqrt(q) - sqrt(qA): absolute error eps*(sq+sA) in the argument
        sq, sA = math.sqrt(q), math.sqrt(qA)
        cancel = EPS * 4 * (sq + sA) * max(1.0, abs(args[1]))
        t_sb = _tol_rel(args[0])
        t_b = _tol_rel(args[1], cancel)
        ctx.close("CLsb", obs[0], float(w_sb), t_sb * float(w_sb) + 1e-300, f"{sig}/{branch}/CLsb", q=q, qA=qA)
        ctx.close("CLb", obs[1], float(w_b), t_b * float(w_b) + 1e-300, f"{sig}/{branch}/CLb", q=q, qA=qA)
        ctx.close("CLs", obs[2], float(w_s), (t_sb + t_b) * float(w_s) + 1e-300, f"{sig}/{branch}/CLs", q=q, qA=qA)
        slack = 1 + 8 * EPS
        if not (0.0 <= obs[0] <= obs[1] * slack and obs[1] <= 1.0 * slack):
            ctx.fail(f"{sig}/{branch}/ordering_0_le_CLsb_le_CLb_le_1", CLsb=obs[0], CLb=obs[1], q=q, qA=qA)
        if not (0.0 <= obs[2] <= 1.0 * slack):
            ctx.fail(f"{sig}/{branch}/CLs_out_of_range", CLs=obs[2], q=q, qA=qA)
        # expected band
        want_band = refstats.expected_band(qA, clipped=(base == "clipped_normal"))
        for i, n in enumerate((2, 1, 0, -1, -2)):
            tn = max(n, -sA) if base == "clipped_normal" else n
            for j, nm in enumerate(("CLsb", "CLb", "CLs")):
                w = float(want_band[i][j])
                t = _tol_rel(tn + sA) + _tol_rel(tn)
                ctx.close("band", exp[j][i], w, t * w + 1e-300, f"{sig}/band/{base}/{nm}", n=n, qA=qA)
        cls_band = exp[2]
        if any(cls_band[i] > cls_band[i + 1] * slack for i in range(4)):
            ctx.fail(f"{sig}/band/{base}/not_monotone", band=cls_band, qA=qA)
        clip_active = False
        if base == "clipped_normal":
            if any(t < -sA * (1 + 4 * EPS) for t in exp_ts):
                ctx.fail(f"{sig}/band/clipped_normal/negative_test_statistic", exp_ts=exp_ts, sqrt_qA=sA)
            ts2, obs2, exp2, exp_ts2 = _run_calc(pyhf, tl, case, "normal")
            if obs2 != obs or ts2 != ts:
                ctx.fail(f"{sig}/clipped_changes_observed_values", clipped=obs, normal=obs2)
            for i, n in enumerate((2, 1, 0, -1, -2)):
                if n > -sA:
                    if [exp[j][i] for j in range(3)] != [exp2[j][i] for j in range(3)]:
                        ctx.fail(f"{sig}/clipped_changes_unaffected_band_value", n=n, qA=qA)
                else:
                    clip_active = True
        # the same calculator instance used before for another (q, q_A): results must be identical
        prior = (0.37 * qA + 0.5, 2.1 * qA + 0.3)
        ts3, obs3, exp3, exp_ts3 = _run_calc(pyhf, tl, case, base, history=[prior])
        if obs3 != obs or exp3 != exp or ts3 != ts:
            if not all(a == b or (a != a and b != b) for a, b in zip(obs3 + sum(exp3, []), obs + sum(exp, []))):
                ctx.fail(f"{sig}/results_depend_on_earlier_use_of_the_calculator/{base}", fresh=obs, reused=obs3, prior=list(prior))
        near = abs(q - qA) <= 8 * EPS * qA
        ctx.label(f"test_stat={ts_name}", f"base={base}", f"backend={case['backend']}", f"branch={branch}")
        if near:
            ctx.label("seam_q_eq_qA_or_neighbour")
        if clip_active:
            ctx.label("clip_active")
        if max(abs(a) for a in args) > 8:
            ctx.label("tail_argument_gt_8")
        if branch == "q_gt_qA" or near or clip_active or max(abs(a) for a in args) > 8:
            ctx.nontrivial([ts_name, base, case["backend"], q, qA])
    finally:
        backends.reset()

"""C01 - expected event rates follow the HistFactory rate formula (DESIGN.md 5, C01)."""
import math

from hypothesis import strategies as st

from vlib import backends, gen_spec
from vlib.refmodel import LayoutMismatch, RefModel, pars_to_flat

ID = "C01"
LEVEL = "exploration"
RULE = (
    "Hypothesis-generated well-formed specs (1-4 channels x 1-3 samples x 1-6 bins, any subset of the "
    "7 modifier types, names shared across samples/channels/types, shuffled listing order) x parameter "
    "points (core, extrapolation, breakpoints and their float neighbours) x interpolation codes x "
    "backend x clipping x batch; oracle = independent loop-based reference model. Non-trivial: >=2 "
    "channels or >=2 samples, >=1 parameter off nominal, >=1 modifier on a sample that is not first in "
    "sorted order; distinct by hash of (shape signature, settings, regime pattern of the point)."
)
ASSUMPTIONS = [
    "reference model (vlib/refmodel.py) is a correct transcription of the HistFactory rate formula",
    "parameter vector layout is the one the model reports (consistency of the layout is C12)",
    "model sizes bounded: <=4 channels x 6 bins x 3 samples",
    "64-bit precision on every backend",
]

BACKENDS_QUICK = {"numpy": 1100, "jax": 350, "pytorch": 350, "tensorflow": 120}


def shards(tier):
    out = []
    if tier == "quick":
        for i in range(6):
            out.append({"name": f"numpy{i}", "backend": "numpy", "examples": 600, "big": i == 5})
        for i in range(4):
            out.append({"name": f"jax{i}", "backend": "jax", "examples": 45, "big": False})
        for i in range(3):
            out.append({"name": f"pytorch{i}", "backend": "pytorch", "examples": 400, "big": False})
        for i in range(3):
            out.append({"name": f"tensorflow{i}", "backend": "tensorflow", "examples": 130, "big": False})
    else:
        for i in range(8):
            out.append({"name": f"numpy{i}", "backend": "numpy", "examples": 4000, "big": i % 2 == 1})
        for i in range(4):
            out.append({"name": f"jax{i}", "backend": "jax", "examples": 600, "big": i == 3})
        for i in range(3):
            out.append({"name": f"pytorch{i}", "backend": "pytorch", "examples": 3000, "big": i == 2})
        for i in range(2):
            out.append({"name": f"tensorflow{i}", "backend": "tensorflow", "examples": 1200, "big": False})
    return out


@st.composite
def strategy_(draw, shard):
    big = shard.get("big", False)
    spec = draw(gen_spec.specs(max_channels=4 if big else 3, max_bins=6 if big else 4,
                               free_histosys=draw(st.booleans())))
    ref = RefModel(spec)
    nrows = draw(st.sampled_from([1, 1, 1, 2, 3]))
    rows = [draw(gen_spec.points(ref, positive=False)) for _ in range(nrows)]
    batched = nrows > 1 or draw(st.integers(0, 4)) == 0
    hs = draw(st.sampled_from(["code4p", "code0", "code2", "code4p"]))
    ns = draw(st.sampled_from(["code4", "code1"]))
    clip_sample = draw(st.sampled_from([None, None, 0.0, 0.0, 1.5, 20.0]))
    clip_bin = draw(st.sampled_from([None, None, 0.0, 5.0, 60.0]))
    return {"spec": spec, "rows": rows, "batched": batched, "histosys": hs, "normsys": ns,
            "clip_sample": clip_sample, "clip_bin": clip_bin, "backend": shard["backend"]}


def strategy(shard):
    return strategy_(shard)


def regime(a):
    if a == 0:
        return "0"
    if abs(a) == 1:
        return "b"
    if abs(abs(a) - 1) < 1e-12:
        return "n"
    return "x" if abs(a) > 1 else "c"


def run_case(case, ctx):
    import pyhf

    spec = case["spec"]
    ref = RefModel(spec, case["histosys"], case["normsys"], case["clip_sample"], case["clip_bin"])
    # --- known finding region: positive per-sample clip lifts samples absent from a channel ---------
    absent = any(len(c["samples"]) != len(ref.all_samples) for c in spec["channels"])
    clip_sample = case["clip_sample"]
    known_region = False
    if clip_sample and absent:
        if case.get("keep_known"):
            known_region = True  # stored replay of the recorded finding: do not exclude
        else:
            ctx.excluded("positive clip_sample_data with a sample absent from a channel")
            clip_sample = 0.0
            ref.clip_sample = 0.0
    tl = backends.use(case["backend"])
    try:
        rows = case["rows"]
        bs = len(rows) if case["batched"] else None
        ok, model = ctx.call(
            "C01/build", pyhf.Model, spec, batch_size=bs, clip_sample_data=clip_sample,
            clip_bin_data=case["clip_bin"],
            modifier_settings={"histosys": {"interpcode": case["histosys"]},
                               "normsys": {"interpcode": case["normsys"]}})
        if not ok:
            return
        cfg = model.config
        try:
            flat = [pars_to_flat(cfg, r) for r in rows]
        except LayoutMismatch as e:
            ctx.fail("C01/layout_mismatch", message=str(e))
            return
        arg = flat if bs else flat[0]
        ok, got_main = ctx.call("C01/expected_actualdata", model.expected_actualdata, arg)
        if not ok:
            return
        ok, got_full = ctx.call("C01/expected_data", model.expected_data, arg)
        if not ok:
            return
        ok, got_bs = ctx.call("C01/by_sample", model.main_model.expected_data,
                              tl.astensor(arg), return_by_sample=True)
        if not ok:
            return
        got_main = backends.tonp(got_main).reshape(len(rows) if bs else 1, -1)
        got_full = backends.tonp(got_full).reshape(len(rows) if bs else 1, -1)
        got_bs = backends.tonp(got_bs)
        if not bs:
            got_bs = got_bs[None]
        # channel layout
        chans = list(cfg.channels)
        if sorted(chans) != sorted(ref.channels):
            ctx.fail("C01/channels_reported", got=chans, want=ref.channels)
            return
        pos = 0
        for c in chans:
            sl = cfg.channel_slices[c]
            if sl.start != pos or sl.stop - sl.start != ref.nbins[c]:
                ctx.fail("C01/channel_slices", channel=c, got=str(sl), want_start=pos,
                         want_width=ref.nbins[c])
                return
            pos = sl.stop
        if got_main.shape[1] != pos:
            ctx.fail("C01/main_length", got=got_main.shape[1], want=pos)
            return
        samples = list(cfg.samples)
        for r, pars in enumerate(rows):
            rates = ref.sample_rates(pars)
            exp_s = ref.expected_by_sample(pars)
            exp = ref.expected_main(pars)
            for c in chans:
                sl = cfg.channel_slices[c]
                mag = [0.0] * ref.nbins[c]
                for s, vals in rates[c].items():
                    smp = [x for x in ref.by_channel[c]["samples"] if x["name"] == s][0]
                    for b, v in enumerate(vals):
                        m = abs(smp["data"][b])
                        for mod in smp["modifiers"]:
                            if mod["type"] == "histosys":
                                m += abs(mod["data"]["lo_data"][b]) + abs(mod["data"]["hi_data"][b])
                        mag[b] += abs(v) + m
                for b in range(ref.nbins[c]):
                    tol = 1e-9 * (abs(exp[c][b]) + mag[b]) + 1e-300
                    sig = f"C01/rate/{case['histosys']}+{case['normsys']}"
                    if known_region and case["clip_bin"] is None:
                        sig = "C01/clip_sample_positive/absent_sample_lifted"
                    okm = ctx.close("main", got_main[r, sl.start + b], exp[c][b], tol, sig,
                                    channel=c, bin=b, row=r)
                    if known_region:
                        continue
                    g1, g2 = float(got_full[r, sl.start + b]), float(got_main[r, sl.start + b])
                    if not (g1 == g2 or (g1 != g1 and g2 != g2)):
                        ctx.fail("C01/expected_data_main_part_differs_from_expected_actualdata",
                                 channel=c, bin=b, row=r, got=g1, want=g2)
                    if not okm:
                        continue  # root cause already reported for this bin
                    for si, s in enumerate(samples):
                        if s in exp_s[c]:
                            want = exp_s[c][s][b]
                        else:
                            want = 0.0 if not clip_sample else max(0.0, clip_sample)
                        ctx.close("by_sample", got_bs[r, si, sl.start + b], want, tol,
                                  "C01/by_sample_rate", channel=c, sample=s, bin=b, row=r)
            # auxiliary part
            ea = ref.expected_aux(pars)
            want_aux = [v for n in cfg.auxdata_order for v in ea[n]]
            got_aux = got_full[r, pos:]
            if len(got_aux) != len(want_aux):
                ctx.fail("C01/aux_length", got=len(got_aux), want=len(want_aux))
            else:
                for k, (g, w) in enumerate(zip(got_aux, want_aux)):
                    ctx.close("aux", g, w, 1e-12 * (1 + abs(w)), "C01/expected_aux", index=k, row=r)
        # --- metamorphic: a sample that does not declare a modifier named p is untouched by p --------
        if not bs:
            pars = rows[0]
            base = backends.tonp(model.main_model.expected_data(tl.astensor(flat[0]), return_by_sample=True))
            for pname in sorted(ref.params)[:3]:
                p2 = {k: list(v) for k, v in pars.items()}
                p2[pname] = [v * 1.37 + 0.21 for v in p2[pname]]
                f2 = pars_to_flat(cfg, p2)
                alt = backends.tonp(model.main_model.expected_data(tl.astensor(f2), return_by_sample=True))
                for c in chans:
                    sl = cfg.channel_slices[c]
                    for si, s in enumerate(samples):
                        smp = [x for x in ref.by_channel[c]["samples"] if x["name"] == s]
                        declares = bool(smp) and any(m["name"] == pname for m in smp[0]["modifiers"])
                        if declares:
                            continue
                        a, b_ = base[si, sl], alt[si, sl]
                        if not all((x == y) or (x != x and y != y) for x, y in zip(a.tolist(), b_.tolist())):
                            ctx.fail("C01/untouched_sample_changed", parameter=pname, channel=c, sample=s)
        # --- classification -------------------------------------------------------------------------
        nch = len(chans)
        nsmp = max(len(c["samples"]) for c in spec["channels"])
        kinds = sorted({m["type"] for c in spec["channels"] for s in c["samples"] for m in s["modifiers"]})
        inits = ref.inits()
        off = any(rows[0][n] != inits[n] for n in rows[0])
        later = any(
            s["modifiers"] and s["name"] != sorted(x["name"] for x in c["samples"])[0]
            for c in spec["channels"] for s in c["samples"])
        regs = "".join(sorted({regime(rows[0][n][0]) for n, p in ref.params.items()
                               if p.kinds <= {"normsys", "histosys"}}))
        ctx.label(f"channels={nch}", f"backend={case['backend']}", f"batched={bool(bs)}",
                  f"hs={case['histosys']}", f"ns={case['normsys']}",
                  f"clip_sample={'on' if clip_sample is not None else 'off'}",
                  f"clip_bin={'on' if case['clip_bin'] is not None else 'off'}")
        for k in kinds:
            ctx.label(f"has_{k}")
        if "x" in regs:
            ctx.label("alpha_extrapolated")
        if "b" in regs or "n" in regs:
            ctx.label("alpha_breakpoint_or_neighbour")
        binwise_later = any(
            m["type"] in ("shapesys", "staterror", "shapefactor") and c["name"] != ref.channels[0]
            for c in spec["channels"] for s in c["samples"] for m in s["modifiers"])
        if binwise_later:
            ctx.label("binwise_modifier_in_later_channel")
        if absent:
            ctx.label("sample_absent_from_a_channel")
        if (nch >= 2 or nsmp >= 2) and off and later:
            shape = [(c["name"], len(c["samples"][0]["data"]),
                      sorted((s["name"], sorted((m["type"], m["name"]) for m in s["modifiers"]))
                             for s in c["samples"])) for c in spec["channels"]]
            ctx.nontrivial([shape, case["histosys"], case["normsys"], case["clip_sample"],
                            case["clip_bin"], bs, regs, case["backend"]])
    finally:
        backends.reset()

"""C16 - workspace combine, prune, rename and sort act on the likelihood as advertised."""
import copy
import math

from hypothesis import strategies as st

from vlib import backends, gen_spec
from vlib.refmodel import RefModel, pars_to_flat

ID = "C16"
LEVEL = "exploration"
RULE = (
    "Hypothesis-generated workspace W split into a pair (A, B) with a generated overlap class (disjoint / "
    "identical overlapping channel / conflicting channel / conflicting observation / measurement with "
    "other POI / conflicting parameter config / other version) x 4 join modes (+ an invalid one) x "
    "merge_channels, plus generated prune / rename selections and list permutations. Oracles: independent "
    "model of the documented join semantics (result items present and deep-equal, refusals raise "
    "InvalidWorkspaceOperation / ValueError); mainlogpdf(C) = mainlogpdf(A)+mainlogpdf(B) and constraint "
    "part = each constrained parameter once (by name) for disjoint channels; prune == independently "
    "filtered spec (structure and logpdf); rename is a relabelling undone by the inverse; sorted is "
    "idempotent, canonical under permutation and likelihood preserving; outputs validate against the "
    "schema, inputs deep-equal before/after. Non-trivial: shared parameter names across the pair, "
    "non-empty selections or non-identity permutation; distinct by hash of (overlap class, join, merge, "
    "selections, shape signature)."
)
ASSUMPTIONS = [
    "join semantics as documented in Workspace.combine and the _join_* docstrings",
    "likelihoods compared at one generated parameter point per case (1e-9 relative)",
]
JOINS = ["none", "outer", "left outer", "right outer"]


def shards(tier):
    q = tier == "quick"
    out = [{"name": f"ws{i}", "examples": 240 if q else 4000} for i in range(14)]
    if not q:
        out += [{"name": f"fuzz{i}", "kind": "fuzz", "runs": 1500} for i in range(2)]
    return out


@st.composite
def strategy_(draw, shard):
    W = draw(gen_spec.workspaces(max_channels=4, max_bins=3, max_samples=3, max_measurements=1,
                                 histosys_rel=0.2))
    ref = RefModel(gen_spec.model_spec_of(W, 0))
    pars = draw(gen_spec.points(ref, positive=True, max_alpha=1.5, at_init_prob=0.3))
    names = [c["name"] for c in W["channels"]]
    nA = draw(st.integers(1, len(names) - 1)) if len(names) > 1 else 1
    overlap = draw(st.sampled_from(["disjoint", "disjoint", "identical_channel", "conflicting_channel",
                                    "conflicting_observation", "mergeable_channel", "mergeable_channel",
                                    "other_poi", "conflicting_parameter",
                                    "other_version", "other_measurement_name"]))
    join = draw(st.sampled_from(JOINS + ["outer", "inner"]))
    merge = draw(st.sampled_from([False, False, True]))
    # prune / rename selections on W
    samples = sorted({s["name"] for c in W["channels"] for s in c["samples"]})
    mods = sorted({m["name"] for c in W["channels"] for s in c["samples"] for m in s["modifiers"]})
    mtypes = sorted({m["type"] for c in W["channels"] for s in c["samples"] for m in s["modifiers"]})
    prune = {
        "channels": draw(st.lists(st.sampled_from(names), max_size=1, unique=True)) if len(names) > 1 else [],
        "samples": draw(st.lists(st.sampled_from(samples), max_size=1, unique=True)),
        "modifiers": draw(st.lists(st.sampled_from(mods), max_size=2, unique=True)) if mods else [],
        "modifier_types": draw(st.lists(st.sampled_from(mtypes), max_size=1, unique=True)) if mtypes else [],
    }
    if draw(st.integers(0, 7)) == 0:
        prune[draw(st.sampled_from(["channels", "samples", "modifiers", "modifier_types"]))] = ["does_not_exist"]
    ren_mods = [m for m in mods if m != "lumi"]
    rename = {
        "channels": {n: f"ren_{n}" for n in draw(st.lists(st.sampled_from(names), max_size=2, unique=True))},
        "samples": {n: f"zren_{n}" for n in draw(st.lists(st.sampled_from(samples), max_size=2, unique=True))},
        "modifiers": {n: f"aren_{n}" for n in (draw(st.lists(st.sampled_from(ren_mods), max_size=2, unique=True))
                                               if ren_mods else [])},
        "measurements": {"meas": "renamed_meas"} if draw(st.booleans()) else {},
    }
    from props.c12 import permuted

    return {"W": W, "nA": nA, "overlap": overlap, "join": join, "merge": merge, "pars": pars,
            "prune": prune, "rename": rename, "perm": draw(permuted(W))}


def strategy(shard):
    return strategy_(shard)


# ------------------------------------------------------------------------------------------------------
def split(W, nA, overlap):
    """Build the pair (A, B) from W; returns (A, B, expected combined measurement parameter union)."""
    chans = W["channels"]
    ca, cb = chans[:nA], chans[nA:] or chans[:1]
    if not chans[nA:]:
        # single-channel W: B gets a renamed copy so that the pair is disjoint
        cb = [dict(copy.deepcopy(chans[0]), name="B_" + chans[0]["name"])]
        for s in cb[0]["samples"]:
            for m in s["modifiers"]:
                if m["type"] in ("shapesys", "staterror"):
                    m["name"] = "B_" + m["name"]
    obs = {o["name"]: o for o in W["observations"]}

    def side(cs):
        used = {m["name"] for c in cs for s in c["samples"] for m in s["modifiers"]}
        params = [copy.deepcopy(p) for p in W["measurements"][0]["config"]["parameters"] if p["name"] in used]
        poi = W["measurements"][0]["config"]["poi"]
        o = []
        for c in cs:
            base = c["name"][2:] if c["name"].startswith("B_") and c["name"] not in obs else c["name"]
            o.append({"name": c["name"], "data": list(obs[base]["data"])})
        return {"channels": copy.deepcopy(cs),
                "measurements": [{"name": "meas", "config": {"poi": poi, "parameters": params}}],
                "observations": o, "version": "1.0.0"}

    A, B = side(ca), side(cb)
    if overlap == "identical_channel":
        B["channels"].append(copy.deepcopy(A["channels"][0]))
        B["observations"].append(copy.deepcopy(A["observations"][0]))
        used = {m["name"] for s in A["channels"][0]["samples"] for m in s["modifiers"]}
        have = {p["name"] for p in B["measurements"][0]["config"]["parameters"]}
        for p in A["measurements"][0]["config"]["parameters"]:
            if p["name"] in used and p["name"] not in have:
                B["measurements"][0]["config"]["parameters"].append(copy.deepcopy(p))
    elif overlap == "conflicting_channel":
        c = copy.deepcopy(A["channels"][0])
        c["samples"][0]["data"] = [v + 1.0 for v in c["samples"][0]["data"]]
        B["channels"].append(c)
        B["observations"].append(copy.deepcopy(A["observations"][0]))
    elif overlap == "mergeable_channel":
        # same channel name and observation, but other samples: only merge_channels can combine them
        c = copy.deepcopy(A["channels"][0])
        for s_ in c["samples"]:
            s_["name"] = "m_" + s_["name"]
            for m in s_["modifiers"]:
                if m["type"] in ("shapesys",):
                    m["name"] = "m_" + m["name"]
        B["channels"].append(c)
        B["observations"].append(copy.deepcopy(A["observations"][0]))
        used = {m["name"] for s_ in A["channels"][0]["samples"] for m in s_["modifiers"]}
        have = {p["name"] for p in B["measurements"][0]["config"]["parameters"]}
        for p in A["measurements"][0]["config"]["parameters"]:
            if p["name"] in used and p["name"] not in have:
                B["measurements"][0]["config"]["parameters"].append(copy.deepcopy(p))
    elif overlap == "conflicting_observation":
        B["channels"].append(copy.deepcopy(A["channels"][0]))
        o = copy.deepcopy(A["observations"][0])
        o["data"] = [v + 1.0 for v in o["data"]]
        B["observations"].append(o)
    elif overlap == "other_poi":
        B["measurements"][0]["config"]["poi"] = "another_poi"
    elif overlap == "conflicting_parameter":
        pa = A["measurements"][0]["config"]["parameters"]
        if pa:
            p = copy.deepcopy(pa[0])
            p["inits"] = [v + 0.125 for v in p.get("inits", [0.5])] if "inits" in p else [0.625] * 1
            pb = B["measurements"][0]["config"]["parameters"]
            pb[:] = [q for q in pb if q["name"] != p["name"]] + [p]
        else:
            overlap = "disjoint"
    elif overlap == "other_version":
        B["version"] = "0.9.9"
    elif overlap == "other_measurement_name":
        B["measurements"][0]["name"] = "alt"
    return A, B, overlap


def ref_join_items(join, left, right, key="name", deep=None):
    prim, sec = (right, left) if join == "right outer" else (left, right)
    out = copy.deepcopy(prim)
    keys = [i[key] for i in out]
    for s in sec:
        if s[key] in keys and deep is not None:
            tgt = out[keys.index(s[key])]
            tgt[deep] = ref_join_items("left outer", tgt[deep], s[deep])
        elif join == "none" or (join == "outer" and s not in prim) or (
                join in ("left outer", "right outer") and s[key] not in keys):
            out.append(copy.deepcopy(s))
    return out


class Refused(Exception):
    pass


def ref_combine(A, B, join, merge):
    """Independent model of the documented combine semantics; raises Refused(kind)."""
    if join not in JOINS:
        raise Refused("ValueError")
    if merge and join == "none":
        raise Refused("ValueError")
    if A["version"] != B["version"]:
        raise Refused("InvalidWorkspaceOperation")
    out = {"version": A["version"]}
    for sect in ("channels", "observations", "measurements"):
        items = ref_join_items(join, A[sect], B[sect], deep="samples" if (merge and sect == "channels") else None)
        names = [i["name"] for i in items]
        if join == "none":
            if {i["name"] for i in A[sect]} & {i["name"] for i in B[sect]}:
                raise Refused("InvalidWorkspaceOperation")
        elif join == "outer":
            if sect != "measurements":
                if len(set(names)) != len(names):
                    raise Refused("InvalidWorkspaceOperation")
            else:
                grouped = {}
                for m in items:
                    grouped.setdefault(m["name"], []).append(m)
                items = []
                for n, ms in grouped.items():
                    if len({m["config"]["poi"] for m in ms}) > 1:
                        raise Refused("InvalidWorkspaceOperation")
                    if len(ms) == 1:
                        items.append(ms[0])
                        continue
                    params = ref_join_items("outer", ms[0]["config"]["parameters"], ms[1]["config"]["parameters"])
                    pn = [p["name"] for p in params]
                    if len(set(pn)) != len(pn):
                        raise Refused("InvalidWorkspaceOperation")
                    items.append({"name": n, "config": {"poi": ms[0]["config"]["poi"], "parameters": params}})
        out[sect] = items
    return out


def canon(ws):
    """order-insensitive form of a workspace dict"""
    w = copy.deepcopy(dict(ws))
    w["channels"] = sorted(w["channels"], key=lambda c: c["name"])
    for c in w["channels"]:
        c["samples"] = sorted(c["samples"], key=lambda s: s["name"])
        for s in c["samples"]:
            s["modifiers"] = sorted(s["modifiers"], key=lambda m: (m["name"], m["type"], repr(m["data"])))
    w["observations"] = sorted(w["observations"], key=lambda o: o["name"])
    w["measurements"] = sorted(w["measurements"], key=lambda m: m["name"])
    for m in w["measurements"]:
        m["config"]["parameters"] = sorted(m["config"]["parameters"], key=lambda p: (p["name"], repr(p)))
    return w


def _model_eval(ctx, tag, ws, meas, pars):
    """(mainlogpdf, constraint logpdf, full) of workspace ws at by-name pars; None if not evaluable."""
    import pyhf

    ok, w = ctx.call(f"C16/{tag}/Workspace", pyhf.Workspace, copy.deepcopy(ws))
    if not ok:
        return None
    ok, m = ctx.call(f"C16/{tag}/model", w.model, measurement_name=meas, poi_name=None)
    if not ok:
        return None
    cfg = m.config
    flat = pars_to_flat(cfg, {n: pars[n] for n in cfg.par_order})
    data = w.data(m)
    tl = pyhf.tensorlib
    main = float(backends.tonp(m.mainlogpdf(tl.astensor(data[:cfg.nmaindata]), tl.astensor(flat))))
    con = 0.0
    if cfg.nauxdata:
        con = float(backends.tonp(m.constraint_logpdf(tl.astensor(data[cfg.nmaindata:]), tl.astensor(flat))))
    full = float(backends.tonp(m.logpdf(flat, data))[0])
    return main, con, full, m


def _eq(a, b, rel=1e-9):
    if math.isnan(a) or math.isnan(b):
        return math.isnan(a) and math.isnan(b)
    if math.isinf(a) or math.isinf(b):
        return a == b
    return abs(a - b) <= rel * (1 + abs(a) + abs(b))


def run_case(case, ctx):
    import pyhf
    from pyhf import exceptions as E

    backends.use("numpy")
    W = case["W"]
    pars = case["pars"]
    refW = RefModel(gen_spec.model_spec_of(W, 0))
    evaluable = refW.rates_safely_positive(pars)
    A, B, overlap = split(W, case["nA"], case["overlap"])
    join, merge = case["join"], case["merge"]
    A0, B0 = copy.deepcopy(A), copy.deepcopy(B)
    ctx.label(f"overlap={overlap}", f"join={join}", f"merge={merge}")
    # ------------------------------------------------------------------------------------ combine
    try:
        want = ref_combine(A, B, join, merge)
        want_kind = "ok"
    except Refused as r:
        want, want_kind = None, str(r)
    try:
        wa = pyhf.Workspace(copy.deepcopy(A))
        wb = pyhf.Workspace(copy.deepcopy(B), validate=(overlap != "other_version"))
    except Exception as exc:  # noqa: BLE001
        ctx.fail(f"C16/input_workspace_rejected/{type(exc).__name__}", message=str(exc)[:200])
        return
    try:
        # arguments at their documented default (join='none', merge_channels=False) are left out: the defaults
        # are part of what is advertised
        ckw = {}
        if join != "none":
            ckw["join"] = join
        if merge:
            ckw["merge_channels"] = True
        C = pyhf.Workspace.combine(wa, wb, **ckw)
        got_kind = "ok"
    except E.InvalidWorkspaceOperation:
        C, got_kind = None, "InvalidWorkspaceOperation"
    except ValueError:
        C, got_kind = None, "ValueError"
    except Exception as exc:  # noqa: BLE001
        C, got_kind = None, f"raises_{type(exc).__name__}"
    sig = f"C16/combine/{overlap}/{join}{'/merge' if merge else ''}"
    if got_kind != want_kind:
        ctx.fail(f"{sig}/outcome_{got_kind}_expected_{want_kind}")
    elif C is not None:
        if canon(C) != canon(want):
            ctx.fail(f"{sig}/result_differs_from_documented_join")
        try:
            pyhf.schema.validate(dict(C), "workspace.json")
        except Exception as exc:  # noqa: BLE001
            ctx.fail(f"{sig}/result_not_schema_valid", message=str(exc)[:200])
        # likelihood relation for disjoint channels with a merged measurement
        # (left/right outer joins are documented as unsafe: the secondary measurement config is dropped)
        if overlap in ("disjoint", "identical_channel") and join == "outer" and evaluable and \
                "meas" in [m["name"] for m in C["measurements"]]:
            pa = dict(pars)
            # parameters of the B_ copy (single-channel W) reuse the values of their originals
            for n in {m["name"] for c in B["channels"] for s in c["samples"] for m in s["modifiers"]}:
                if n not in pa and n.startswith("B_"):
                    pa[n] = pars[n[2:]]
            from vlib.ctx import Ctx

            scratch = Ctx()  # a side without any parameter cannot be built: not a finding
            ea = _model_eval(scratch, "combine/A", A, "meas", pa)
            eb = _model_eval(scratch, "combine/B", B, "meas", pa)
            ec = _model_eval(ctx, "combine/C", dict(C), "meas", pa) if (ea and eb) else None
            if ea and eb and ec:
                dup = overlap == "identical_channel"
                if not dup:
                    if not _eq(ec[0], ea[0] + eb[0]):
                        ctx.fail(f"{sig}/main_likelihood_not_product", got=ec[0], want=ea[0] + eb[0])
                    # constraint: each constrained parameter once
                    seen, tot = set(), 0.0
                    for side_ws, ev in ((A, ea), (B, eb)):
                        r = RefModel(gen_spec.model_spec_of(side_ws, 0))
                        aux = r.nominal_aux()
                        for name, k, t in r.constraint_terms({n: pa[n] for n in r.params}, aux):
                            if (name, k) not in seen:
                                seen.add((name, k))
                                tot += t
                    if not _eq(ec[1], tot):
                        ctx.fail(f"{sig}/constraint_part_not_each_parameter_once", got=ec[1], want=tot)
                shared = ({m["name"] for c in A["channels"] for s in c["samples"] for m in s["modifiers"]}
                          & {m["name"] for c in B["channels"] for s in c["samples"] for m in s["modifiers"]})
                if shared:
                    ctx.label("shared_parameter_names_across_pair")
    if A != A0 or B != B0 or dict(wa) != A0 or dict(wb) != B0:
        ctx.fail("C16/combine/inputs_mutated")
    # ------------------------------------------------------------------------------------ prune
    ww = pyhf.Workspace(copy.deepcopy(W))
    pr = case["prune"]
    bogus = any("does_not_exist" in v for v in pr.values())
    filt = copy.deepcopy(W)
    filt["channels"] = [c for c in filt["channels"] if c["name"] not in pr["channels"]]
    filt["observations"] = [o for o in filt["observations"] if o["name"] not in pr["channels"]]
    for c in filt["channels"]:
        c["samples"] = [s for s in c["samples"] if s["name"] not in pr["samples"]]
        for s in c["samples"]:
            s["modifiers"] = [m for m in s["modifiers"]
                              if m["name"] not in pr["modifiers"] and m["type"] not in pr["modifier_types"]]
    for m in filt["measurements"]:
        m["config"]["parameters"] = [p for p in m["config"]["parameters"] if p["name"] not in pr["modifiers"]]
    valid_after = bool(filt["channels"]) and all(c["samples"] for c in filt["channels"])
    try:
        P = ww.prune(**{k: list(v) for k, v in pr.items()})
        pk = "ok"
    except E.InvalidWorkspaceOperation:
        P, pk = None, "InvalidWorkspaceOperation"
    except E.InvalidSpecification:
        P, pk = None, "InvalidSpecification"
    except Exception as exc:  # noqa: BLE001
        P, pk = None, f"raises_{type(exc).__name__}"
    want_pk = "InvalidWorkspaceOperation" if bogus else ("ok" if valid_after else "InvalidSpecification")
    if pk != want_pk:
        ctx.fail(f"C16/prune/outcome_{pk}_expected_{want_pk}", prune=pr)
    elif P is not None:
        if canon(P) != canon(filt):
            ctx.fail("C16/prune/result_differs_from_filtered_spec", prune=pr)
        elif evaluable and any(pr.values()):
            # parameters left after pruning keep their values; pruned modifier types may orphan overrides
            rp = None
            try:
                rp = RefModel(gen_spec.model_spec_of(filt, 0))
            except Exception:  # noqa: BLE001
                rp = None
            if rp is not None and rp.params and all(n in pars and len(pars[n]) == p.n for n, p in rp.params.items()) \
                    and rp.rates_safely_positive({n: pars[n] for n in rp.params}):
                user = {p["name"] for p in filt["measurements"][0]["config"]["parameters"]}
                if user <= set(rp.params):
                    e1 = _model_eval(ctx, "prune/result", dict(P), "meas", pars)
                    if e1:
                        mt, ct, _ = rp.logpdf_parts({n: pars[n] for n in rp.params},
                                                    {o["name"]: o["data"] for o in filt["observations"]},
                                                    rp.nominal_aux())
                        if not _eq(e1[2], mt + ct):
                            ctx.fail("C16/prune/likelihood_of_remainder_changed", got=e1[2], want=mt + ct, prune=pr)
    if dict(ww) != W:
        ctx.fail("C16/prune/input_mutated")
    # ------------------------------------------------------------------------------------ rename
    rn = case["rename"]
    try:
        R = ww.rename(**copy.deepcopy(rn))
        back = R.rename(**{k: {v: kk for kk, v in d.items()} for k, d in rn.items()})
    except Exception as exc:  # noqa: BLE001
        ctx.fail(f"C16/rename/raises_{type(exc).__name__}", rename=rn, message=str(exc)[:200])
        R = None
    if R is not None:
        if dict(back) != W:
            ctx.fail("C16/rename/inverse_does_not_restore", rename=rn)
        try:
            pyhf.schema.validate(dict(R), "workspace.json")
        except Exception as exc:  # noqa: BLE001
            ctx.fail("C16/rename/result_not_schema_valid", message=str(exc)[:200])
        if evaluable:
            rp = {rn["modifiers"].get(n, n): v for n, v in pars.items()}
            e0 = _model_eval(ctx, "rename/original", W, "meas", pars)
            e1 = _model_eval(ctx, "rename/renamed", dict(R), rn["measurements"].get("meas", "meas"), rp)
            if e0 and e1 and not _eq(e0[2], e1[2]):
                ctx.fail("C16/rename/likelihood_changed", got=e1[2], want=e0[2], rename=rn)
    if dict(ww) != W:
        ctx.fail("C16/rename/input_mutated")
    # ------------------------------------------------------------------------------------ sorted
    S = pyhf.Workspace.sorted(ww)
    S2 = pyhf.Workspace.sorted(S)
    SP = pyhf.Workspace.sorted(pyhf.Workspace(copy.deepcopy(case["perm"])))
    if dict(S2) != dict(S):
        ctx.fail("C16/sorted/not_idempotent")
    if dict(SP) != dict(S):
        ctx.fail("C16/sorted/not_canonical_under_permutation")
    if canon(S) != canon(W):
        ctx.fail("C16/sorted/content_changed")
    if [c["name"] for c in S["channels"]] != sorted(c["name"] for c in W["channels"]):
        ctx.fail("C16/sorted/channels_not_sorted")
    if evaluable:
        e0 = _model_eval(ctx, "sorted/original", W, "meas", pars)
        e1 = _model_eval(ctx, "sorted/sorted", dict(S), "meas", pars)
        if e0 and e1 and not _eq(e0[2], e1[2]):
            ctx.fail("C16/sorted/likelihood_changed", got=e1[2], want=e0[2])
    if dict(ww) != W:
        ctx.fail("C16/sorted/input_mutated")
    nonid = canon(case["perm"]) == canon(W) and case["perm"] != W
    sel = any(pr.values()) or any(rn.values())
    if sel:
        ctx.label("nonempty_selection")
    if nonid:
        ctx.label("non_identity_permutation")
    if not evaluable:
        ctx.label("likelihood_not_evaluated_at_point")
    if sel or nonid:
        shape = [(c["name"], len(c["samples"])) for c in W["channels"]]
        ctx.nontrivial([overlap, join, merge, pr, rn, shape, case["nA"]])

"""C06 - profile-likelihood test statistics obey their case definitions."""
import math

from hypothesis import strategies as st

from vlib import backends, gen_spec, refstats
from vlib.gen_spec import nice_float
from vlib.refmodel import RefModel, flat_to_pars

ID = "C06"
LEVEL = "exploration"
RULE = (
    "Hypothesis-generated counting models with closed-form profile likelihood (family A: 1-4 bins in 1-2 "
    "channels, no nuisance; family C: on/off with one Poisson-constrained nuisance) and small well-posed "
    "general models x data generated at true mu in {0, mu/2, mu, 2mu, 4mu} (integers and Asimov "
    "non-integers) x tested mu across the POI range (incl. the closed-form best fit) x {qmu, qmu_tilde, q0, "
    "tmu, tmu_tilde} x POI lower bound {0, -5} x {scipy, minuit} x nuisance parameters floating or held "
    "constant by the caller through fixed_params (a quarter of the cases). Oracles: caller-held entries "
    "unchanged in both returned parameter vectors; q>=0; q == max(0, 2 NLL_ref("
    "returned conditional pars) - 2 NLL_ref(returned free pars)) with the one-sided rule applied to the "
    "returned fitted POI; conditional POI == mu exactly (0 for q0); closed-form value for families A/C; "
    "q ~ 0 at the best fit. Non-trivial: a zeroing branch taken, fitted POI on the lower bound, or the "
    "clip at 0 active; distinct by (family/shape, statistic, branch, optimizer, data)."
)
ASSUMPTIONS = [
    "reference NLL from vlib/refmodel.py; closed forms from vlib/refstats.py",
    "closed-form comparison tolerance 1e-3 (scipy) / 1e-2 (minuit, MIGRAD tolerance 0.1) + 1e-5*q; within "
    "1e-3 of the zeroing seam either branch is accepted",
]
STATS = ["qmu", "qmu_tilde", "q0", "tmu", "tmu_tilde"]


def shards(tier):
    q = tier == "quick"
    out = []
    for i in range(10):
        out.append({"name": f"scipy{i}", "optimizer": "scipy", "examples": 700 if q else 6000})
    for i in range(5):
        out.append({"name": f"minuit{i}", "optimizer": "minuit", "examples": 450 if q else 4000})
    return out


@st.composite
def family_case(draw):
    fam = draw(st.sampled_from(["A", "A", "C"]))
    lo = draw(st.sampled_from([0.0, 0.0, -5.0]))
    if fam == "C":
        lo = 0.0  # with a free gamma a negative POI could drive the rate negative: not well-posed
    hi = 10.0
    mu = draw(st.one_of(nice_float(0.05, 6.0), st.sampled_from([1.0, 0.5, 2.0])))
    true_mu = mu * draw(st.sampled_from([0.0, 0.5, 1.0, 2.0, 4.0]))
    if fam == "A":
        nb = draw(st.integers(1, 4))
        s = [draw(nice_float(1.0, 20.0)) for _ in range(nb)]
        b = [draw(nice_float(6.0, 120.0)) * (si if lo < 0 else 1.0) + (5.5 * si if lo < 0 else 0.0) for si in s]
        b = [float(f"{v:.6g}") for v in b]
        split = [nb] if nb == 1 or draw(st.booleans()) else [1, nb - 1]
        exp = [true_mu * si + bi for si, bi in zip(s, b)]
        data = []
        for e in exp:
            k = draw(st.integers(0, 5))
            if k == 0:
                data.append(float(f"{e:.6g}"))
            else:
                w = 2.5 * math.sqrt(e)
                data.append(float(max(0, round(e + draw(nice_float(-w, w))))))
        return {"family": "A", "s": s, "b": b, "split": split, "bounds": [lo, hi], "mu": mu, "data": data}
    s = draw(nice_float(2.0, 20.0))
    b = draw(nice_float(20.0, 120.0)) + (5.5 * s if lo < 0 else 0.0)
    b = float(f"{b:.6g}")
    delta = float(f"{b * draw(nice_float(0.05, 0.3)):.6g}")
    tau = (b / delta) ** 2
    e = true_mu * s + b
    w = 2.5 * math.sqrt(e)
    n = float(f"{e:.6g}") if draw(st.integers(0, 5)) == 0 else float(max(0, round(e + draw(nice_float(-w, w)))))
    a = float(f"{tau:.6g}") if draw(st.booleans()) else float(max(1, round(tau + draw(nice_float(-2, 2)) * math.sqrt(tau))))
    return {"family": "C", "s": s, "b": b, "delta": delta, "bounds": [lo, hi], "mu": mu, "data": [n, a]}


@st.composite
def general_case(draw):
    spec = draw(gen_spec.specs(max_channels=2, max_bins=2, max_samples=3, wellposed=True, overrides=False,
                               kinds=("normfactor", "normsys", "histosys", "shapesys", "staterror")))
    ref = RefModel(spec)
    mu = draw(nice_float(0.1, 4.0))
    truth = ref.inits()
    truth["mu"] = [mu * draw(st.sampled_from([0.0, 0.5, 1.0, 2.0]))]
    exp = ref.expected_main(truth)
    main = {}
    for c in ref.channels:
        main[c] = []
        for e in exp[c]:
            w = 2.0 * math.sqrt(max(e, 1.0))
            main[c].append(float(max(0, round(e + draw(nice_float(-w, w))))))
    return {"family": "G", "spec": spec, "mu": mu, "main": main}


@st.composite
def strategy_(draw, shard):
    case = draw(st.one_of(family_case(), family_case(), general_case()))
    case["stat"] = draw(st.sampled_from(STATS))
    case["optimizer"] = shard["optimizer"]
    case["at_bestfit"] = draw(st.integers(0, 7)) == 0
    # the caller holds nuisance parameters constant through the fixed_params argument (not through the model)
    case["hold"] = [draw(st.integers(0, 3)) == 0 for _ in range(8)] if draw(st.integers(0, 3)) == 0 else None
    return case


def strategy(shard):
    return strategy_(shard)


def build(case):
    """(spec, family object or None, full data vector builder)"""
    if case["family"] == "A":
        fam = refstats.FamilyA(case["s"], case["b"], tuple(case["bounds"]))
        return fam.spec(case["split"]), fam
    if case["family"] == "C":
        fam = refstats.FamilyC(case["s"], case["b"], case["delta"], tuple(case["bounds"]))
        return fam.spec(), fam
    return case["spec"], None


def _fit_did_not_converge(pyhf, fam, case, tested, data, fdata, model, init, bounds, fixed, mubh, muh):
    """Diagnosis of a closed-form mismatch.  True only if (a) the statistic returned bit-for-bit the points that
    the direct mle.fit / mle.fixed_poi_fit calls with the same arguments return, and (b) one of those direct fits
    ends above the objective *at the closed-form optimum* (evaluated by the same twice_nll) by more than the
    optimiser tolerance."""
    import numpy as np

    tol_opt = 2e-4 if case["optimizer"] == "scipy" else 2e-3
    tl = pyhf.tensorlib
    try:
        pu, vu = pyhf.infer.mle.fit(data, model, init, bounds, fixed, return_fitted_val=True)
        pc, vc = pyhf.infer.mle.fixed_poi_fit(tested, data, model, init, bounds, fixed, return_fitted_val=True)
    except Exception:  # noqa: BLE001 - no diagnosis possible: keep the verdict
        return False
    pu, pc = backends.tonp(pu).astype(float), backends.tonp(pc).astype(float)
    if not (np.array_equal(pu, np.asarray(muh)) and np.array_equal(pc, np.asarray(mubh))):
        return False
    ru, _ = fam.unconditional(fdata)
    rc, _ = fam.conditional(tested, fdata)
    if ru is None or rc is None:
        return False
    pi = model.config.poi_index
    others = [i for i in range(model.config.npars) if i != pi]

    def at(ref_pt, like):
        vec = [float(v) for v in like]
        vec[pi] = float(ref_pt[0])
        for i, v in zip(others, list(ref_pt)[1:]):  # families with a nuisance list it after the POI
            vec[i] = float(v)
        return float(backends.tonp(pyhf.infer.mle.twice_nll(tl.astensor(vec), tl.astensor(data), model)).reshape(-1)[0])

    try:
        return float(backends.tonp(vu)) > at(ru, pu) + tol_opt or float(backends.tonp(vc)) > at(rc, pc) + tol_opt
    except Exception:  # noqa: BLE001
        return False


def run_case(case, ctx):
    import pyhf
    from pyhf.infer import test_statistics as T

    spec, fam = build(case)
    stat = case["stat"]
    mu = case["mu"]
    ref = RefModel(spec)
    backends.use("numpy", optimizer=case["optimizer"])
    try:
        model = pyhf.Model(spec, poi_name="mu")
        cfg = model.config
        if case["family"] == "A":
            data = list(case["data"])
            main = {}
            k = 0
            for c in cfg.channels:
                main[c] = data[k:k + cfg.channel_nbins[c]]
                k += cfg.channel_nbins[c]
            aux = {}
            fdata = case["data"]
        elif case["family"] == "C":
            main = {"singlechannel": [case["data"][0]]}
            aux = {"uncorr_bkguncrt": [case["data"][1]]}
            data = [case["data"][0], case["data"][1]]
            fdata = case["data"]
        else:
            main = case["main"]
            aux = ref.nominal_aux()
            data = [v for c in cfg.channels for v in main[c]] + list(cfg.auxdata)
        if fam is not None and case["at_bestfit"]:
            pu, _ = fam.unconditional(fdata)
            if pu is not None and case["bounds"][0] < pu[0] < case["bounds"][1]:
                mu = pu[0]
        init, bounds, fixed = cfg.suggested_init(), cfg.suggested_bounds(), cfg.suggested_fixed()
        held = []
        if case.get("hold"):
            fixed = [bool(f) for f in fixed]
            if case["family"] == "C":
                held = [i for i in range(cfg.npars) if i != cfg.poi_index]
            elif case["family"] == "G":
                held = [i for i in range(cfg.npars) if i != cfg.poi_index and case["hold"][i % 8]]
            for i in held:
                fixed[i] = True
            if held and case["family"] == "C":
                # gamma held at 1: the constraint term is the same constant in both fits and the statistic is
                # that of the nuisance-free counting model
                fam = refstats.FamilyA([case["s"]], [case["b"]], tuple(case["bounds"]))
                fdata = [case["data"][0]]
                if case["at_bestfit"]:
                    pu, _ = fam.unconditional(fdata)
                    mu = pu[0] if pu is not None and case["bounds"][0] < pu[0] < case["bounds"][1] else case["mu"]
        fn = getattr(T, stat)
        sig = f"C06/{stat}"
        try:
            qv, (mubh, muh) = fn(mu, data, model, init, bounds, fixed, return_fitted_pars=True)
        except pyhf.exceptions.FailedMinimization:
            if fam is not None and case["optimizer"] == "scipy":
                ctx.fail(f"{sig}/FailedMinimization_on_closed_form_family/{case['family']}")
                return
            ctx.discard("FailedMinimization")
        except Exception as exc:  # noqa: BLE001
            from vlib.ctx import Discard, innermost_pyhf_frame

            if isinstance(exc, Discard):
                raise
            w = innermost_pyhf_frame(exc)
            if w is None:
                raise
            ctx.fail(f"{sig}/raises/{type(exc).__name__}@{w[0]}:{w[1]}/{case['optimizer']}", message=str(exc)[:200])
            return
        qv = float(backends.tonp(qv))
        mubh = [float(v) for v in backends.tonp(mubh)]
        muh = [float(v) for v in backends.tonp(muh)]
        pi = cfg.poi_index
        tested = 0.0 if stat == "q0" else mu
        if not (qv >= 0.0):
            ctx.fail(f"{sig}/negative_or_nan", q=qv)
        if mubh[pi] != tested:
            ctx.fail(f"{sig}/conditional_poi_not_at_tested_value", got=mubh[pi], want=tested)
        for i in held:
            for nm, vec in (("conditional", mubh), ("unconditional", muh)):
                if abs(vec[i] - float(init[i])) > 1e-10 * max(1.0, abs(float(init[i]))):
                    ctx.fail(f"{sig}/caller_fixed_parameter_moved/{nm}_fit", index=i, got=vec[i], want=float(init[i]))
        # value from the returned fitted parameters
        pc, pu = flat_to_pars(cfg, mubh), flat_to_pars(cfg, muh)
        mc, cc, sc = ref.logpdf_parts(pc, main, aux)
        mf, cf, sf = ref.logpdf_parts(pu, main, aux)
        raw = -2 * (mc + cc) + 2 * (mf + cf)
        want = max(0.0, raw)
        branch = "plain"
        if stat in ("qmu", "qmu_tilde") and muh[pi] > mu:
            want, branch = 0.0, "zeroed_muhat_gt_mu"
        if stat == "q0" and muh[pi] < 0:
            want, branch = 0.0, "zeroed_muhat_lt_0"
        if branch == "plain" and raw < 0:
            branch = "clipped_at_zero"
        ctx.close("definition", qv, want, 1e-9 * (1 + sc + sf), f"{sig}/value_ne_definition_at_returned_pars/{branch}",
                  mu=mu, muhat=muh[pi], raw=raw)
        on_bound = abs(muh[pi] - bounds[pi][0]) < 1e-9
        unconverged = False
        # closed form
        if fam is not None:
            if stat in ("qmu", "qmu_tilde"):
                qr, rc, ru, rraw = refstats.qmu_like(fam, mu, fdata)
            elif stat == "q0":
                qr, rc, ru, rraw = refstats.q0(fam, fdata)
            else:
                qr, rc, ru, rraw = refstats.tmu_like(fam, mu, fdata)
            if rc is not None and ru is not None:
                tol = (1e-3 if case["optimizer"] == "scipy" else 1e-2) + 1e-5 * qr
                seam = (stat in ("qmu", "qmu_tilde") and abs(ru[0] - mu) < 1e-3) or (stat == "q0" and abs(ru[0]) < 1e-3)
                if seam:
                    ok = qv <= max(0.0, rraw) + tol
                    ctx.err("closed_form", 0.0 if ok else float("inf"))
                    if not ok:
                        ctx.fail(f"{sig}/closed_form/{case['family']}/near_seam", got=qv, raw=rraw)
                elif abs(qv - qr) > tol and _fit_did_not_converge(pyhf, fam, case, tested, data, fdata, model, init, bounds,
                                                                   fixed, mubh, muh):
                    # root cause is the optimiser (recorded under C05), not the test-statistic logic: the
                    # statistic returns exactly the points the direct fits return, and those miss the optimum
                    ctx.excluded("closed-form comparison skipped: the direct mle fit stops short of the closed-form "
                                 f"optimum ({case['optimizer']}; optimiser limitation recorded under C05)")
                    unconverged = True
                else:
                    ctx.close("closed_form", qv, qr, tol, f"{sig}/closed_form/{case['family']}",
                              mu=mu, muhat_ref=ru[0], muhat=muh[pi])
                if case["at_bestfit"] and mu == ru[0] and stat != "q0" and not unconverged:
                    if not qv <= tol:
                        ctx.fail(f"{sig}/nonzero_at_best_fit", q=qv)
        ctx.label(f"stat={stat}", f"family={case['family']}", f"optimizer={case['optimizer']}", f"branch={branch}",
                  f"poi_lower={bounds[pi][0]}")
        if on_bound:
            ctx.label("fitted_poi_on_lower_bound")
        if case["at_bestfit"]:
            ctx.label("tested_at_closed_form_best_fit")
        if held:
            ctx.label("nuisance_held_by_caller")
        if branch != "plain" or on_bound:
            shape = case["family"] if fam is not None else [
                (c["name"], len(c["samples"]), len(c["samples"][0]["data"])) for c in spec["channels"]]
            ctx.nontrivial([shape, stat, branch, on_bound, case["optimizer"], data, mu])
    finally:
        backends.reset()

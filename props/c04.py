"""C04 - probability primitives equal the exact Poisson/Normal functions on every backend."""
import math

import mpmath as mp
import numpy as np
from hypothesis import strategies as st

from vlib import backends

ID = "C04"
LEVEL = "exploration"
RULE = (
    "Hypothesis-generated argument vectors (32 tuples per case) for poisson_logpdf/poisson, "
    "normal_logpdf/normal and normal_cdf on {numpy, jax, pytorch, tensorflow} x {64b, 32b}: counts 0..1e8 "
    "(integer and real), rates 0 / denormal / 1e-300..1e8 with a boosted |n-lambda|<=10 sqrt(lambda) "
    "class, sigma over 20 decades, |z| up to 40, cdf arguments in [-38, 38]. Inputs are rounded to the "
    "backend precision before the 50-digit mpmath oracle is evaluated. Tolerance K*eps*(sum of |terms|), "
    "K=64. Non-trivial: a tuple in a tail (|z|>5 or cdf<1e-6), in the cancellation class, at lambda=0 or "
    "<1e-300, or with non-integer n; distinct by (function, backend, precision, class pattern, hash of args)."
)
ASSUMPTIONS = [
    "mpmath at 50 digits is exact for log, loggamma, erfc",
    "K=64 units of rounding of the terms involved is 'a few units of rounding'",
    "32-bit normal_cdf domain limited to x >= -12 (result representable in float32)",
]
K = 64.0
mp.mp.dps = 50


def shards(tier):
    q = tier == "quick"
    out = []
    for be, n in (("numpy", 4), ("pytorch", 3), ("jax", 3), ("tensorflow", 2)):
        for i in range(n):
            ex = {"numpy": 600, "pytorch": 500, "jax": 250, "tensorflow": 300}[be]
            out.append({"name": f"{be}{i}", "backend": be, "examples": ex if q else ex * 30})
    return out


def logu(lo, hi):
    return st.floats(math.log(lo), math.log(hi)).map(math.exp)


@st.composite
def poisson_args(draw):
    cls = draw(st.integers(0, 9))
    if cls == 0:
        lam = draw(st.sampled_from([0.0, 5e-324, 1e-310, 1e-300]))
        n = draw(st.sampled_from([0.0, 0.0, 1.0, 3.0, 0.5]))
        return n, lam, "lambda_zero_or_tiny"
    if cls in (1, 2, 3):
        lam = draw(logu(1.0, 1e8))
        w = 10 * math.sqrt(lam)
        n = max(0.0, lam + draw(st.floats(-w, w)))
        if draw(st.booleans()):
            n = float(round(n))
        return n, lam, "cancellation"
    lam = draw(logu(1e-300, 1e8)) if cls < 8 else draw(logu(1e-3, 1e3))
    k = draw(st.integers(0, 5))
    if k == 0:
        n = 0.0
    elif k == 1:
        n = float(draw(st.integers(0, 20)))
    elif k == 2:
        n = draw(st.floats(0.0, 50.0))
    elif k == 3:
        n = float(draw(st.integers(0, 10**8)))
    else:
        n = draw(logu(1e-3, 1e8))
    return n, lam, ("noninteger_n" if n != round(n) else "bulk")


@st.composite
def normal_args(draw):
    sigma = draw(logu(1e-10, 1e10))
    z = draw(st.one_of(st.floats(-40, 40), st.floats(-3, 3), st.sampled_from([0.0, 38.0, -38.0])))
    m = draw(st.one_of(st.just(0.0), st.floats(-1000, 1000)))
    mu = m * sigma
    x = mu + z * sigma
    return x, mu, sigma, ("tail" if abs(z) > 5 else "bulk")


@st.composite
def cdf_args(draw):
    z = draw(st.one_of(st.floats(-38, 38), st.floats(-6, 6), st.sampled_from([0.0, -38.0, 38.0, -37.5])))
    if draw(st.integers(0, 3)) == 0:
        sigma = draw(logu(1e-3, 1e3))
        mu = draw(st.floats(-100, 100))
        return mu + z * sigma, mu, sigma, ("tail" if z < -4.75 else "bulk")
    return z, 0.0, 1.0, ("tail" if z < -4.75 else "bulk")


@st.composite
def strategy_(draw, shard):
    func = draw(st.sampled_from(["poisson", "normal", "cdf"]))
    prec = draw(st.sampled_from(["64b", "64b", "32b"]))
    gen = {"poisson": poisson_args, "normal": normal_args, "cdf": cdf_args}[func]
    args = [list(draw(gen())) for _ in range(32)]
    return {"func": func, "backend": shard["backend"], "precision": prec, "args": args}


def strategy(shard):
    return strategy_(shard)


def exact_poisson(n, lam):
    if lam == 0:
        return 0.0 if n == 0 else -math.inf, 0.0
    n, lam = mp.mpf(n), mp.mpf(lam)
    t1 = n * mp.log(lam) if n != 0 else mp.mpf(0)
    t3 = mp.loggamma(n + 1)
    return t1 - lam - t3, float(abs(t1) + lam + abs(t3))


def exact_normal(x, mu, sigma):
    x, mu, sigma = mp.mpf(x), mp.mpf(mu), mp.mpf(sigma)
    z = (x - mu) / sigma
    val = -mp.log(sigma) - mp.log(2 * mp.pi) / 2 - z * z / 2
    return val, float(abs(mp.log(sigma)) + 1 + z * z), float(z)


def exact_cdf(x, mu, sigma):
    z = (mp.mpf(x) - mp.mpf(mu)) / mp.mpf(sigma)
    return mp.erfc(-z / mp.sqrt(2)) / 2, float(z)


def close_exp(ctx, name, got, logwant, tol, tiny, sig, **detail):
    """got must equal exp(logwant) up to a perturbation of +-tol of the exponent (and underflow)."""
    lw = float(logwant)
    lo = math.exp(min(lw - tol, 700.0)) if lw - tol > -745 else 0.0
    hi = math.exp(min(lw + tol, 700.0)) if lw + tol > -745 else 0.0
    if lw + tol > (700.0 if tiny < 1e-100 else 85.0):
        hi = math.inf  # the perturbed exponent overflows the backend precision
    got = float(got)
    ok = (lo * (1 - 1e-15) - tiny) <= got <= (hi * (1 + 1e-15) + tiny)
    ctx.err(name, 0.0 if ok else float("inf"))
    if not ok:
        ctx.fail(sig, got=got, want=math.exp(min(lw, 700.0)), log_tol=tol, **detail)
    return ok


MIN_NORMAL = {"64b": 2.2250738585072014e-308, "32b": 1.1754943508222875e-38}
# XLA (jax) and TensorFlow evaluate with flush-to-zero; numpy and pytorch keep subnormals on the pinned tree
FTZ_BACKENDS = ("jax", "tensorflow")


def _process_flushes_denormals():
    return 2.0 * 1e-310 == 0.0


def run_case(case, ctx):
    import pyhf

    be, prec, func = case["backend"], case["precision"], case["func"]
    tl = backends.use(be, prec)
    eps = 2.0**-52 if prec == "64b" else 2.0**-23
    tiny = 1e-300 if prec == "64b" else 1e-37
    rnd = (lambda v: float(np.float32(v))) if prec == "32b" else float
    try:
        cols = list(zip(*[a[:-1] for a in case["args"]]))
        cols = [[rnd(v) for v in col] for col in cols]
        classes = [a[-1] for a in case["args"]]
        sigp = f"C04/{be}/{prec}"
        if func == "poisson":
            n, lam = cols
            ok, lp = ctx.call(f"{sigp}/poisson_logpdf", tl.poisson_logpdf, tl.astensor(n), tl.astensor(lam))
            ok2, p = ctx.call(f"{sigp}/poisson", tl.poisson, tl.astensor(n), tl.astensor(lam))
            ok3, dp = ctx.call(f"{sigp}/Poisson.log_prob",
                               lambda: pyhf.probability.Poisson(tl.astensor(lam)).log_prob(tl.astensor(n)))
            ok4, ind = ctx.call(f"{sigp}/Independent.log_prob",
                                lambda: pyhf.probability.Independent(
                                    pyhf.probability.Poisson(tl.astensor(lam))).log_prob(tl.astensor(n)))
            if not (ok and ok2 and ok3 and ok4):
                return
            lp, p, dp = (backends.tonp(v).astype(float) for v in (lp, p, dp))
            ind = float(backends.tonp(ind))
            tot, tot_terms = mp.mpf(0), 0.0
            for i in range(len(n)):
                want, terms = exact_poisson(n[i], lam[i])
                if prec == "32b" and (terms > 1e30):
                    continue
                cls = classes[i]
                if 0 < n[i] < MIN_NORMAL[prec]:
                    tot_terms = float("inf")
                    continue  # denormal count: flush-to-zero platforms treat it as 0
                if 0 < lam[i] < MIN_NORMAL[prec] and be in FTZ_BACKENDS:
                    want0 = 0.0 if n[i] == 0 else -math.inf
                    if lp[i] == want0 and p[i] == (1.0 if n[i] == 0 else 0.0):
                        ctx.label("denormal_rate_flushed_to_zero")
                        tot_terms = float("inf")
                        continue
                if lam[i] == 0 and n[i] > 0:
                    if not (lp[i] == -math.inf and p[i] == 0.0):
                        ctx.fail(f"{sigp}/poisson_logpdf/lambda0_n_positive", n=n[i], got=lp[i], got_p=p[i])
                    continue
                if lam[i] == 0:
                    terms = 0.0
                tol = K * eps * (terms + 1.0)
                w = float(want)
                ctx.close("poisson_logpdf", lp[i], w, tol, f"{sigp}/poisson_logpdf/{cls}", n=n[i], lam=lam[i])
                ctx.close("Poisson.log_prob", dp[i], lp[i], tol, f"{sigp}/Poisson.log_prob_vs_tensorlib",
                          n=n[i], lam=lam[i])
                close_exp(ctx, "poisson", p[i], want, tol, tiny, f"{sigp}/poisson_vs_exp_logpdf/{cls}",
                          n=n[i], lam=lam[i])
                tot += want
                tot_terms += terms + 1.0
            if all(not (l_ == 0 and n_ > 0) for n_, l_ in zip(n, lam)) and tot_terms < 1e30:
                if not (prec == "32b" and any(exact_poisson(a, b)[1] > 1e30 for a, b in zip(n, lam))):
                    ctx.close("Independent", ind, float(tot), K * eps * tot_terms * (1 if prec == "64b" else 4),
                              f"{sigp}/Independent.log_prob_sum")
        elif func == "normal":
            x, mu, sg = cols
            if any(s <= 0 for s in sg):
                ctx.discard("sigma rounded to 0")
            ok, lp = ctx.call(f"{sigp}/normal_logpdf", tl.normal_logpdf, tl.astensor(x), tl.astensor(mu), tl.astensor(sg))
            ok2, p = ctx.call(f"{sigp}/normal", tl.normal, tl.astensor(x), tl.astensor(mu), tl.astensor(sg))
            ok3, dp = ctx.call(f"{sigp}/Normal.log_prob",
                               lambda: pyhf.probability.Normal(tl.astensor(mu), tl.astensor(sg)).log_prob(tl.astensor(x)))
            if not (ok and ok2 and ok3):
                return
            lp, p, dp = (backends.tonp(v).astype(float) for v in (lp, p, dp))
            for i in range(len(x)):
                want, terms, z = exact_normal(x[i], mu[i], sg[i])
                if abs(z) > 60:
                    continue
                cls = "tail" if abs(z) > 5 else "bulk"
                classes[i] = cls
                # x - mu is computed in floating point by the backend: conditioning of z
                cond = (abs(x[i]) + abs(mu[i])) / sg[i] * max(abs(z), 1.0)
                tol = K * eps * (terms + cond)
                ctx.close("normal_logpdf", lp[i], float(want), tol, f"{sigp}/normal_logpdf/{cls}",
                          x=x[i], mu=mu[i], sigma=sg[i])
                ctx.close("Normal.log_prob", dp[i], lp[i], tol, f"{sigp}/Normal.log_prob_vs_tensorlib",
                          x=x[i], mu=mu[i], sigma=sg[i])
                if float(want) < (700 if prec == "64b" else 80):
                    close_exp(ctx, "normal", p[i], want, tol, tiny, f"{sigp}/normal_vs_exp_logpdf/{cls}",
                              x=x[i], mu=mu[i], sigma=sg[i])
        else:
            x, mu, sg = cols
            if any(s <= 0 for s in sg):
                ctx.discard("sigma rounded to 0")
            if all(m == 0.0 and s == 1.0 for m, s in zip(mu, sg)):
                ok, c = ctx.call(f"{sigp}/normal_cdf", tl.normal_cdf, tl.astensor(x))
            else:
                ok, c = ctx.call(f"{sigp}/normal_cdf", tl.normal_cdf, tl.astensor(x), tl.astensor(mu), tl.astensor(sg))
            if not ok:
                return
            c = backends.tonp(c).astype(float)
            for i in range(len(x)):
                want, z = exact_cdf(x[i], mu[i], sg[i])
                if abs(z) > 38.5 or (prec == "32b" and z < -12):
                    continue
                cls = "tail" if z < -4.75 else "bulk"
                classes[i] = cls
                cond = (abs(x[i]) + abs(mu[i])) / sg[i]  # rounding of x - mu, in units of z
                w = float(want)
                if z < 0:
                    # results below the smallest normal number are not required (scipy's ndtr underflows to 0)
                    tol = K * eps * (1 + z * z + cond * abs(z)) * w + MIN_NORMAL[prec]
                else:
                    tol = K * eps * (1 + cond * math.exp(-z * z / 2))
                ctx.close("normal_cdf", c[i], w, tol, f"{sigp}/normal_cdf/{cls}", x=x[i], mu=mu[i], sigma=sg[i])
                if not (0.0 <= c[i] <= 1.0):
                    ctx.fail(f"{sigp}/normal_cdf/out_of_range", x=x[i], got=c[i])
        ctx.label(f"func={func}", f"backend={be}", f"precision={prec}", *[f"class={c}" for c in set(classes)])
        if set(classes) - {"bulk"}:
            ctx.nontrivial([func, be, prec, sorted(set(classes)), case["args"]])
    finally:
        if _process_flushes_denormals():
            # the backend switched the whole thread to flush-to-zero mode (numpy and everything else in the
            # process are affected from now on): report it and restore IEEE behaviour for the generator
            ctx.fail(f"C04/{be}/process_left_in_flush_to_zero_mode")
            try:
                import torch

                torch.set_flush_denormal(False)
            except Exception:  # noqa: BLE001
                pass
        backends.reset()

"""C09 - upper limits solve CLs(mu) = level at the requested level."""
import math

import numpy as np
from hypothesis import strategies as st
from scipy.optimize import brentq

from props.c06 import build, family_case
from vlib import backends, refstats

ID = "C09"
LEVEL = "exploration"
RULE = (
    "Hypothesis-generated closed-form counting families (A: 1-3 bins, C: on/off) whose six CLs curves "
    "cross the level inside the POI bounds x data x level log-uniform in (0.001, 0.5) x {automatic "
    "toms748 scan, linear grid scans of generated range/spacing} x forwarded options (test_stat, "
    "calc_base_dist, par_bounds with a POI range other than the suggested one) x return_results, plus the deprecated alias. Oracles: hypotest evaluated by the check "
    "at limit*(1-+eps) brackets the *passed* level for the observed and the five expected curves; limit "
    "equals the root of the closed-form CLs curve; grid limits lie in the cell whose stored results "
    "straddle the level; expected limits ordered; every returned per-point result equals a fresh hypotest call with the forwarded options (relative 1e-6). "
    "Non-trivial: level != 0.05, a grid that does not contain the limit as a node, or a non-default "
    "forwarded option; distinct by (family, data, level, mode, options)."
)
ASSUMPTIONS = [
    "fits at tight tolerance (SLSQP ftol 1e-10); bracket eps = 1e-3 relative in mu, slack 2e-3 relative in CLs",
    "closed-form root compared at 2e-3 relative",
    "only curves that cross the level inside the scanned range are checked (the property's precondition)",
]


def shards(tier):
    q = tier == "quick"
    out = [{"name": f"s{i}", "examples": 50 if q else 500, "general": False} for i in range(13)]
    out += [{"name": f"g{i}", "examples": 10 if q else 120, "general": True} for i in range(3)]
    return out


@st.composite
def strategy_(draw, shard):
    if shard.get("general"):
        from props.c06 import general_case

        case = draw(general_case())
        case["mu"] = 1.0
    else:
        case = draw(family_case())
    case["bounds"] = [0.0, 10.0]
    case["level"] = draw(st.one_of(st.floats(math.log(0.001), math.log(0.5)).map(math.exp).map(lambda v: float(f"{v:.4g}")),
                                   st.sampled_from([0.05, 0.1, 0.2, 0.01])))
    case["mode"] = draw(st.sampled_from(["auto", "auto", "grid"]))
    case["grid"] = [draw(st.floats(0.05, 0.5)), draw(st.floats(6.0, 9.9)), draw(st.integers(5, 11))]
    case["test_stat"] = draw(st.sampled_from(["qtilde", "qtilde", "q"]))
    case["base"] = draw(st.sampled_from(["normal", "normal", "clipped_normal"]))
    case["return_results"] = draw(st.booleans())
    case["alias"] = draw(st.integers(0, 5)) == 0
    # forwarded par_bounds: a POI range other than the model's suggested (0, 10)
    case["poi_hi"] = draw(st.sampled_from([None, None, 15.0, 20.0, 12.5]))
    return case


def strategy(shard):
    return strategy_(shard)


def ref_curves(fam, family, fdata, mu, ts, base):
    """closed-form (observed CLs, 5 expected CLs) at mu"""
    asimov = fam.asimov(0.0) if family == "A" else fam.asimov(0.0, fdata)
    q, _, _, _ = refstats.qmu_like(fam, mu, fdata)
    qA, _, _, _ = refstats.qmu_like(fam, mu, asimov)
    if qA <= 0:
        return None
    obs = float(refstats.asymptotic_pvalues(q, qA, ts)[2])
    band = [float(t[2]) for t in refstats.expected_band(qA, clipped=(base == "clipped_normal"))]
    return [obs] + band


def run_case(case, ctx):
    import pyhf
    from pyhf.infer.intervals import upper_limits as UL

    spec, fam = build(case)
    poi_hi = case.get("poi_hi")
    if poi_hi is not None and fam is not None:
        _, fam = build(dict(case, bounds=[case["bounds"][0], poi_hi]))  # reference with the forwarded POI range
    level, ts, base = case["level"], case["test_stat"], case["base"]
    general = case["family"] == "G"
    if general:
        case = dict(case, mode="auto", alias=False)
    else:
        fdata = case["data"]
        # precondition: all six curves cross the level inside (0, 9.9)
        hi = ref_curves(fam, case["family"], fdata, 9.9, ts, base)
        lo = ref_curves(fam, case["family"], fdata, 0.02, ts, base)
        if hi is None or lo is None or not all(v < level * 0.9 for v in hi) or not all(v > level * 1.1 for v in lo):
            ctx.discard("a CLs curve does not cross the level inside the POI bounds")
    backends.use("numpy", optimizer=pyhf.optimize.scipy_optimizer(tolerance=1e-10))
    try:
        model = pyhf.Model(spec, poi_name="mu")
        extra = {}
        if poi_hi is not None:
            pb = [tuple(map(float, b)) for b in model.config.suggested_bounds()]
            pb[model.config.poi_index] = (pb[model.config.poi_index][0], poi_hi)
            extra["par_bounds"] = pb
        if general:
            data = [v for c in model.config.channels for v in case["main"][c]] + list(model.config.auxdata)
            fdata = data
            kw0 = {"test_stat": ts, "calc_base_dist": base, **extra}
            try:
                r_hi = pyhf.infer.hypotest(9.9, data, model, return_expected_set=True, **kw0)
                r_lo = pyhf.infer.hypotest(0.02, data, model, return_expected_set=True, **kw0)
            except pyhf.exceptions.FailedMinimization:
                ctx.discard("FailedMinimization")
            c_hi = [float(r_hi[0])] + [float(v) for v in r_hi[1]]
            c_lo = [float(r_lo[0])] + [float(v) for v in r_lo[1]]
            if not all(v < level * 0.9 for v in c_hi) or not all(v > level * 1.1 for v in c_lo):
                ctx.discard("a CLs curve does not cross the level inside the POI bounds")
        else:
            data = list(fdata)
        kw = {"test_stat": ts, "calc_base_dist": base, **extra}
        nondefault = ts != "qtilde" or base != "normal" or bool(extra)
        fn = pyhf.infer.intervals.upperlimit if case["alias"] else UL.upper_limit
        sig = f"C09/{case['mode']}"
        scan = None
        if case["mode"] == "grid":
            g0, g1, gn = case["grid"]
            scan = np.linspace(g0, g1, gn)
        try:
            res = fn(data, model, scan=scan, level=level, return_results=case["return_results"], **kw)
        except pyhf.exceptions.FailedMinimization:
            if not general:
                # closed-form family: is any single hypothesis test with the forwarded options failing?
                lo_b = model.config.suggested_bounds()[model.config.poi_index][0]
                hi_b = poi_hi if poi_hi is not None else model.config.suggested_bounds()[model.config.poi_index][1]
                probes = list(scan) if scan is not None else [lo_b + (hi_b - lo_b) * t / 24.0 for t in range(25)]
                try:
                    for mu_p in probes:
                        pyhf.infer.hypotest(float(mu_p), data, model, return_expected_set=True, **kw)
                except pyhf.exceptions.FailedMinimization:
                    ctx.discard("FailedMinimization")
                ctx.fail(f"{sig}/FailedMinimization_although_every_probed_hypotest_succeeds/{case['family']}",
                         options={k: (v if k != "par_bounds" else [list(b) for b in v]) for k, v in kw.items()})
                return
            ctx.discard("FailedMinimization")
        except Exception as exc:  # noqa: BLE001
            from vlib.ctx import Discard, innermost_pyhf_frame

            if isinstance(exc, Discard):
                raise
            w = innermost_pyhf_frame(exc)
            if w is None:
                raise
            ctx.fail(f"{sig}/raises/{type(exc).__name__}@{w[0]}:{w[1]}", message=str(exc)[:200])
            return
        if case["return_results"]:
            if len(res) != 3:
                ctx.fail(f"{sig}/return_results_layout", n=len(res))
                return
            obs_l, exp_l, (pts, results) = res
        else:
            if len(res) != 2:
                ctx.fail(f"{sig}/layout", n=len(res))
                return
            obs_l, exp_l = res
            pts = results = None
        limits = [float(obs_l)] + [float(v) for v in exp_l]
        if len(limits) != 6:
            ctx.fail(f"{sig}/number_of_limits", n=len(limits))
            return
        # the two scan functions called directly, optional arguments left at their defaults: a 2-tuple with the
        # same limits as upper_limit gave (a third of the cases; deterministic, so equality is exact to rounding)
        if case["grid"][2] % 3 == 0 and not case["alias"]:
            try:
                if scan is not None:
                    direct = UL.linear_grid_scan(data, model, scan, level, **kw)
                else:
                    # upper_limit brackets the root with the model's suggested POI range
                    lo_d, hi_d = model.config.suggested_bounds()[model.config.poi_index]
                    direct = UL.toms748_scan(data, model, lo_d, hi_d, level, **kw)
                if not (isinstance(direct, tuple) and len(direct) == 2):
                    ctx.fail(f"{sig}/direct_scan_call_layout", n=len(direct) if isinstance(direct, tuple) else -1)
                else:
                    dl = [float(direct[0])] + [float(v) for v in direct[1]]
                    if any(abs(a - b) > 1e-9 * (1 + abs(b)) for a, b in zip(dl, limits)):
                        ctx.fail(f"{sig}/direct_scan_call_differs_from_upper_limit", direct=dl, upper_limit=limits)
            except pyhf.exceptions.FailedMinimization:
                pass
        names = ["observed", "exp-2", "exp-1", "exp0", "exp+1", "exp+2"]
        if any(limits[i] > limits[i + 1] * (1 + 1e-6) for i in range(1, 5)):
            ctx.fail(f"{sig}/expected_limits_not_ordered", limits=limits)

        def cls_at(mu):
            r = pyhf.infer.hypotest(mu, data, model, return_expected_set=True, **kw)
            return [float(r[0])] + [float(v) for v in r[1]]

        if case["mode"] == "auto":
            eps, eta = 1e-3, 2e-3
            for k, L in enumerate(limits):
                below = cls_at(L * (1 - eps))[k]
                above = cls_at(L * (1 + eps))[k]
                ok = below >= level * (1 - eta) and above <= level * (1 + eta)
                if not ok:
                    # a curve made of fits is not exactly monotone (neighbouring mu values can end in different
                    # local optima of a multi-nuisance model): the limit itself evaluating to the level is accepted
                    at_l = cls_at(L)[k]
                    if abs(at_l - level) <= eta * level:
                        ok = True
                        ctx.count("limit_is_a_root_of_a_locally_non_monotone_curve", 1)
                ctx.err("bracket", 0.0 if ok else float("inf"))
                if not ok:
                    which = "default_level_0.05_used" if (below >= 0.05 * (1 - eta) and above <= 0.05 * (1 + eta)) else "not_a_root"
                    ctx.fail(f"{sig}/limit_does_not_solve_CLs_eq_level/{names[k]}/{which}", limit=L, level=level,
                             cls_below=below, cls_above=above)
                # closed-form root
                if general:
                    continue
                # the closed-form curve at the returned limit must be at the level.  (Compared in CLs, not in mu:
                # where the curve is flat - level 0.5 next to the q = 0 plateau - the root is ill-conditioned
                # in mu and a whole interval solves the equation to rounding.)
                rc_ = ref_curves(fam, case["family"], fdata, L, ts, base)
                if rc_ is not None:
                    ctx.close("closed_form_root", rc_[k], level, 2e-3 * level, f"{sig}/limit_ne_closed_form_root/{names[k]}",
                              level=level, limit=L)
        else:
            # grid: the limit lies in the cell whose stored results straddle the level
            grid_results = results if results is not None else [
                pyhf.infer.hypotest(mu, data, model, return_expected_set=True, **kw) for mu in scan]
            curves = [[float(r[0])] + [float(v) for v in r[1]] for r in grid_results]
            for k, L in enumerate(limits):
                col = [c[k] for c in curves]
                cells = [i for i in range(len(col) - 1) if col[i] >= level > col[i + 1]]
                if len(cells) != 1:
                    continue  # this curve does not cross exactly once inside the grid: outside the precondition
                if any(abs(c - level) <= 1e-7 * level for c in col):
                    # a scan point sits on the level (CLs is exactly 0.5 wherever q = 0 and CL_b = 1): every point
                    # of that plateau solves CLs = level, the crossing cell is not unique
                    ctx.count("grid_curve_with_a_scan_point_on_the_level_skipped", 1)
                    continue
                i = cells[0]
                ok = scan[i] * (1 - 1e-9) <= L <= scan[i + 1] * (1 + 1e-9)
                if not ok:
                    ctx.fail(f"{sig}/limit_outside_crossing_cell/{names[k]}", limit=L, cell=[float(scan[i]), float(scan[i + 1])],
                             level=level)
                else:
                    # linear interpolation inside the cell
                    t = (col[i] - level) / (col[i] - col[i + 1])
                    want = scan[i] + t * (scan[i + 1] - scan[i])
                    ctx.close("grid_interp", L, want, 1e-9 * (1 + abs(want)), f"{sig}/limit_ne_linear_interpolation/{names[k]}")
        if pts is not None:
            if case["mode"] == "grid" and [float(p) for p in pts] != [float(p) for p in scan]:
                ctx.fail(f"{sig}/returned_scan_points_differ")
            # every returned per-point result is what a fresh hypothesis test with the forwarded options gives
            # (relative comparison: CLs at the upper end of the range is tiny)
            for i in range(len(pts)):
                fresh = cls_at(float(pts[i]))
                got = [float(results[i][0])] + [float(v) for v in results[i][1]]
                if any(abs(a - b) > 1e-6 * abs(b) + 1e-200 and not (a != a and b != b) for a, b in zip(got, fresh)):
                    ctx.fail(f"{sig}/returned_results_ne_fresh_hypotest", point=float(pts[i]), got=got, fresh=fresh,
                             options=kw)
        ctx.label(f"mode={case['mode']}", f"family={case['family']}", f"test_stat={ts}", f"base={base}",
                  f"return_results={case['return_results']}")
        if level != 0.05:
            ctx.label("level_ne_0.05")
        if case["alias"]:
            ctx.label("deprecated_alias")
        if level != 0.05 or nondefault or case["mode"] == "grid":
            ctx.nontrivial([case["family"], fdata, level, case["mode"], ts, base, case["grid"] if scan is not None else None])
    finally:
        backends.reset()

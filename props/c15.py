"""C15 - inference is invariant under likelihood-preserving rewrites and configurations."""
import copy
import math

from hypothesis import strategies as st

from vlib import backends, gen_spec
from vlib.gen_spec import nice_float
from vlib.refmodel import RefModel

ID = "C15"
LEVEL = "exploration"
RULE = (
    "Hypothesis-generated well-posed, sensitive models (median expected CLs at the tested mu < 0.9; nuisance "
    "parameters of every modifier type) x data x compositions (depth 1-3) of rewrites, each constructed to "
    "be applicable: permute lists; rename channels/samples/parameters; add a zero-yield sample; add a "
    "systematic whose variations equal the nominal; split a channel's bins into two channels; split a "
    "sample into two carrying identical modifiers (staterror in quadrature); rescale the signal by k. "
    "Metamorphic oracles: the two likelihoods agree (1e-7 relative) at each side's fitted points mapped into the "
    "other side through the rewrite's parameter correspondence (optimiser-free); 2NLL at the optimum (minus log 2pi per added unit-Gaussian constraint), test "
    "statistic, observed and 5 expected CLs unchanged; under rescaling CLs'(mu/k) = CLs(mu) (and limit' = "
    "limit/k in the thorough tier); a second backend (64-bit) and minuit at tight tolerance agree. "
    "Non-trivial: >=2 nuisance-parameter types and a rewrite that changes the spec; distinct by (shape "
    "signature, rewrite sequence, backend)."
)
ASSUMPTIONS = [
    "fits at tight tolerance (SLSQP ftol 1e-10; MIGRAD tol 1e-4 strategy 2); tolerance 5e-4 relative on CLs "
    "(2e-3 for minuit), 1e-4 absolute on 2NLL and q",
    "compositions bounded to depth 3",
]
REWRITES = ["permute", "rename", "zero_sample", "null_systematic", "split_channel", "split_sample", "rescale_signal"]


def shards(tier):
    q = tier == "quick"
    out = []
    for i in range(10):
        out.append({"name": f"numpy{i}", "backend": "numpy", "second": None, "examples": 26 if q else 400})
    out.append({"name": "numpy_minuit0", "backend": "numpy", "second": "minuit", "examples": 18 if q else 250})
    out.append({"name": "numpy_minuit1", "backend": "numpy", "second": "minuit", "examples": 18 if q else 250})
    out.append({"name": "vs_pytorch0", "backend": "numpy", "second": "pytorch", "examples": 18 if q else 250})
    out.append({"name": "vs_pytorch1", "backend": "numpy", "second": "pytorch", "examples": 18 if q else 250})
    out.append({"name": "vs_jax0", "backend": "numpy", "second": "jax", "examples": 8 if q else 60})
    out.append({"name": "vs_tensorflow0", "backend": "numpy", "second": "tensorflow", "examples": 4 if q else 40})
    return out


@st.composite
def strategy_(draw, shard):
    spec = draw(gen_spec.specs(max_channels=2, max_bins=3, max_samples=3, wellposed=True, overrides=False,
                               kinds=("normfactor", "normsys", "histosys", "shapesys", "staterror", "lumi", "shapefactor")))
    ref = RefModel(spec)
    truth = ref.inits()
    truth["mu"] = [draw(st.sampled_from([0.0, 0.5, 1.0]))]
    exp = ref.expected_main(truth)
    main = {}
    for c in ref.channels:
        main[c] = []
        for e in exp[c]:
            w = 1.5 * math.sqrt(max(e, 1.0))
            main[c].append(float(max(0, round(e + draw(nice_float(-w, w))))))
    n = draw(st.integers(1, 3))
    steps = [{"op": draw(st.sampled_from(REWRITES)), "picks": [draw(st.integers(0, 1000)) for _ in range(4)],
              "k": draw(st.sampled_from([0.5, 2.0, 1.25, 0.8]))} for _ in range(n)]
    return {"spec": spec, "main": main, "mu": draw(st.sampled_from([1.0, 2.0, 4.0])), "steps": steps,
            "backend": shard["backend"], "second": shard["second"]}


def strategy(shard):
    return strategy_(shard)


# ------------------------------------------------------------------------------------------------------
def apply_rewrite(state, step):
    """state = {spec, main, scale, added}; returns description or None if not applicable (state untouched)."""
    spec, main = state["spec"], state["main"]
    op, (a, b, c, d) = step["op"], step["picks"]
    chans = spec["channels"]
    ch = chans[a % len(chans)]
    if op == "permute":
        import random

        rng = random.Random(a * 1000 + b)
        rng.shuffle(chans)
        for cc in chans:
            rng.shuffle(cc["samples"])
            for s in cc["samples"]:
                rng.shuffle(s["modifiers"])
        rng.shuffle(spec["parameters"])
        return "permute"
    if op == "rename":
        cmap = {cc["name"]: f"r{b % 7}_{cc['name']}" for cc in chans}
        smap = {s["name"]: f"x{c % 5}{s['name']}" for cc in chans for s in cc["samples"] if s["name"] != "sig" or True}
        pnames = {m["name"] for cc in chans for s in cc["samples"] for m in s["modifiers"]}
        pmap = {n: (n if n in ("mu", "lumi") else f"q{d % 3}_{n}") for n in pnames}
        for cc in chans:
            cc["name"] = cmap[cc["name"]]
            for s in cc["samples"]:
                s["name"] = smap[s["name"]]
                for m in s["modifiers"]:
                    m["name"] = pmap[m["name"]]
        for p in spec["parameters"]:
            p["name"] = pmap.get(p["name"], p["name"])
        state["main"] = {cmap[k]: v for k, v in main.items()}
        if "origin" in state:
            state["origin"] = {pmap.get(n, n): o for n, o in state["origin"].items()}
        return "rename"
    if op == "zero_sample":
        nb = len(ch["samples"][0]["data"])
        name = f"zero{b % 3}"
        if any(s["name"] == name for s in ch["samples"]):
            return None
        ch["samples"].insert(b % (len(ch["samples"]) + 1), {"name": name, "data": [0.0] * nb, "modifiers": []})
        return "zero_sample"
    if op == "null_systematic":
        s = ch["samples"][b % len(ch["samples"])]
        name = f"null_sys{state['added']}"
        if c % 2:
            s["modifiers"].append({"name": name, "type": "normsys", "data": {"lo": 1.0, "hi": 1.0}})
        else:
            s["modifiers"].append({"name": name, "type": "histosys",
                                   "data": {"lo_data": list(s["data"]), "hi_data": list(s["data"])}})
        state["added"] += 1
        if "origin" in state:
            state["origin"][name] = None
        return "null_systematic"
    if op == "split_channel":
        nb = len(ch["samples"][0]["data"])
        if nb < 2:
            return None
        cut = 1 + b % (nb - 1)
        parts = []
        for pi, sl in enumerate((slice(0, cut), slice(cut, nb))):
            part = {"name": f"{ch['name']}_p{pi}", "samples": []}
            for s in ch["samples"]:
                ns = {"name": s["name"], "data": s["data"][sl], "modifiers": []}
                for m in s["modifiers"]:
                    nm = copy.deepcopy(m)
                    if m["type"] == "histosys":
                        nm["data"] = {"lo_data": m["data"]["lo_data"][sl], "hi_data": m["data"]["hi_data"][sl]}
                    elif m["type"] in ("shapesys", "staterror"):
                        nm["data"] = m["data"][sl]
                        nm["name"] = f"{m['name']}_p{pi}"
                    elif m["type"] == "shapefactor":
                        nm["name"] = f"{m['name']}_{ch['name']}_p{pi}"
                    ns["modifiers"].append(nm)
                part["samples"].append(ns)
            parts.append(part)
        # a shapefactor shared with another channel would change meaning: not applicable then
        sf = {m["name"] for s in ch["samples"] for m in s["modifiers"] if m["type"] == "shapefactor"}
        other = {m["name"] for cc in chans if cc is not ch for s in cc["samples"] for m in s["modifiers"]}
        if sf & other:
            return None
        if "origin" in state:
            for s_ in ch["samples"]:
                for m in s_["modifiers"]:
                    if m["type"] in ("shapesys", "staterror"):
                        new0, new1 = f"{m['name']}_p0", f"{m['name']}_p1"
                    elif m["type"] == "shapefactor":
                        new0, new1 = f"{m['name']}_{ch['name']}_p0", f"{m['name']}_{ch['name']}_p1"
                    else:
                        continue
                    o = state["origin"].get(m["name"])
                    if o is not None:
                        state["origin"][new0] = (o[0], o[1])
                        state["origin"][new1] = (o[0], o[1] + cut)
                        state["origin"].pop(m["name"], None)
        idx = chans.index(ch)
        chans[idx:idx + 1] = parts
        data = main.pop(ch["name"])
        main[parts[0]["name"]], main[parts[1]["name"]] = data[:cut], data[cut:]
        return "split_channel"
    if op == "split_sample":
        cands = [s for s in ch["samples"] if not any(m["type"] == "shapesys" for m in s["modifiers"])]
        if not cands:
            return None
        s = cands[b % len(cands)]
        # per-bin fractions: in some bins one part keeps the whole yield (the other part is empty there but
        # still carries its share of the MC statistical uncertainty, which adds in quadrature)
        nb_ = len(s["data"])
        base = [0.5, 0.25, 0.6][c % 3]
        fr = [[base, 0.0, 1.0, base][(d + 3 * b_) % 4] if (d % 2) else base for b_ in range(nb_)]
        s2 = copy.deepcopy(s)
        s2["name"] = s["name"] + "_b"
        if any(x["name"] == s2["name"] for x in ch["samples"]):
            return None
        for smp, sign in ((s, 0), (s2, 1)):
            f = [(1 - x) if sign else x for x in fr]
            smp["data"] = [v * fb for v, fb in zip(smp["data"], f)]
            for m in smp["modifiers"]:
                if m["type"] == "histosys":
                    m["data"] = {"lo_data": [v * fb for v, fb in zip(m["data"]["lo_data"], f)],
                                 "hi_data": [v * fb for v, fb in zip(m["data"]["hi_data"], f)]}
                elif m["type"] == "staterror":
                    m["data"] = [v / math.sqrt(2) for v in m["data"]]
        ch["samples"].append(s2)
        return "split_sample"
    if op == "rescale_signal":
        k = step["k"]
        sigs = [s for cc in chans for s in cc["samples"] if any(m["name"] == "mu" for m in s["modifiers"])]
        if not sigs or any(m["type"] in ("staterror", "shapesys") for s in sigs for m in s["modifiers"]):
            return None
        if state["scale"] * k > 4 or state["scale"] * k < 0.25:
            return None
        for s in sigs:
            s["data"] = [v * k for v in s["data"]]
            for m in s["modifiers"]:
                if m["type"] == "histosys":
                    m["data"] = {"lo_data": [v * k for v in m["data"]["lo_data"]],
                                 "hi_data": [v * k for v in m["data"]["hi_data"]]}
        state["scale"] *= k
        # the POI range scales with 1/k so that the same physical range is fitted
        spec["parameters"] = [p for p in spec["parameters"] if p["name"] != "mu"]
        spec["parameters"].append({"name": "mu", "bounds": [[0.0, 10.0 / state["scale"]]]})
        return "rescale_signal"
    raise ValueError(op)


def infer(pyhf, spec, main, mu, tl):
    model = pyhf.Model(copy.deepcopy(spec), poi_name="mu")
    cfg = model.config
    data = [v for c in cfg.channels for v in main[c]] + list(cfg.auxdata)
    _, nll = pyhf.infer.mle.fit(data, model, return_fitted_val=True)
    cls, tails, band, calc = pyhf.infer.hypotest(mu, data, model, return_tail_probs=True, return_expected_set=True,
                                                 return_calculator=True)
    q = pyhf.infer.test_statistics.qmu_tilde(mu, data, model, cfg.suggested_init(), cfg.suggested_bounds(),
                                              cfg.suggested_fixed())
    f = lambda v: float(backends.tonp(v))  # noqa: E731
    fp = calc.fitted_pars
    asimov = model.expected_data(fp.asimov_pars)
    tn = lambda p, d: f(pyhf.infer.mle.twice_nll(p, d, model)[0])  # noqa: E731
    objs = [tn(fp.free_fit_to_data, data), tn(fp.fixed_poi_fit_to_data, data), tn(fp.asimov_pars, data),
            tn(fp.free_fit_to_asimov, asimov), tn(fp.fixed_poi_fit_to_asimov, asimov)]
    pars = [[float(v) for v in backends.tonp(p)] for p in (fp.free_fit_to_data, fp.fixed_poi_fit_to_data, fp.asimov_pars)]
    return {"nll2": f(nll), "q": f(q), "cls": f(cls), "clsb": f(tails[0]), "clb": f(tails[1]),
            "band": [f(v) for v in band], "objs": objs, "pars": pars}, model, data


def best_infer(pyhf, spec, main, mu):
    """Run the inference with both optimisers at tight tolerance; keep the run whose five fits reached the
    lowest objectives (same likelihood function, so lower = better converged).  Guards against the path
    dependence of local optimisers on multi-modal likelihoods."""
    runs = []
    for opt in (pyhf.optimize.scipy_optimizer(tolerance=1e-10), pyhf.optimize.minuit_optimizer(tolerance=1e-5, strategy=2)):
        backends.use("numpy", optimizer=opt)
        try:
            runs.append(infer(pyhf, spec, main, mu, pyhf.tensorlib))
        except pyhf.exceptions.FailedMinimization:
            continue
    if not runs:
        raise pyhf.exceptions.FailedMinimization("both optimisers failed")
    return min(runs, key=lambda r: sum(r[0]["objs"]) + r[0]["nll2"])


def compare(ctx, sig, a, b, rel, nll_shift=0.0, detail=None, same_function=None):
    """same_function: None (not established) or True (the two likelihood functions were shown to agree at both
    sides' fitted points).  With it, objectives of corresponding fits that differ mean that one optimiser run
    stopped short of a point the other one reached: an optimiser limitation (C05), not a statement about the
    rewrite - such cases are counted, not reported."""
    detail = detail or {}
    if same_function:
        gaps = [abs(x - (y - nll_shift)) for x, y in zip(a["objs"], b["objs"])]
        if max(gaps) > 1e-4:
            ctx.excluded("rewrite comparison skipped: likelihoods agree at both sides' fitted points but one side's "
                         "fit stopped short of the other's optimum (optimiser limitation recorded under C05)")
            return
    ctx.close("nll2", b["nll2"] - nll_shift, a["nll2"], 1e-4 + 1e-8 * abs(a["nll2"]), f"{sig}/maximised_likelihood", **detail)
    ctx.close("q", b["q"], a["q"], 2e-4 + 1e-6 * abs(a["q"]), f"{sig}/test_statistic", **detail)
    for k in ("cls", "clsb", "clb"):
        ctx.close(k, b[k], a[k], rel * abs(a[k]) + 1e-12, f"{sig}/observed_{k}", **detail)
    for i, (x, y) in enumerate(zip(a["band"], b["band"])):
        ctx.close("band", y, x, rel * abs(x) + 1e-12, f"{sig}/expected_band", index=i, **detail)


def cross_evaluate(ctx, pyhf, sig, base, model0, data0, new, model1, data1, origin, scale, shift):
    """The rewrite maps parameters by name (origin: new name -> (base name, offset) or None for an added null
    systematic; the POI scales with 1/scale).  The two likelihoods must agree at the three data-fit points of
    either side mapped into the other - an optimiser-free statement.  Returns True if that was established."""
    c0, c1 = model0.config, model1.config
    if set(c1.par_order) != set(origin) or any(o is not None and o[0] not in c0.par_order for o in origin.values()):
        ctx.count("rewrite_parameter_map_incomplete", 1)
        return None
    init1 = [float(v) for v in c1.suggested_init()]
    tl = pyhf.tensorlib

    def fwd(vec0):
        out = list(init1)
        for name in c1.par_order:
            sl1, o = c1.par_slice(name), origin[name]
            if o is None:
                continue
            s0 = c0.par_slice(o[0])
            for j in range(sl1.stop - sl1.start):
                out[sl1.start + j] = vec0[s0.start + o[1] + j] / (scale if name == "mu" else 1.0)
        return out

    def bwd(vec1):
        out = [float(v) for v in c0.suggested_init()]
        for name in c1.par_order:
            sl1, o = c1.par_slice(name), origin[name]
            if o is None:
                continue
            s0 = c0.par_slice(o[0])
            for j in range(sl1.stop - sl1.start):
                out[s0.start + o[1] + j] = vec1[sl1.start + j] * (scale if name == "mu" else 1.0)
        return out

    def obj(model, data, vec):
        return float(backends.tonp(pyhf.infer.mle.twice_nll(tl.astensor(vec), tl.astensor(data), model)).reshape(-1)[0])

    ok = True
    for vec0, o0 in zip(base["pars"], base["objs"][:3]):
        v1 = obj(model1, data1, fwd(vec0)) - shift
        if not ctx.close("likelihood_at_mapped_point", v1, o0, 1e-7 * (1 + abs(o0)),
                         f"{sig}/likelihood_differs_at_mapped_point/original_to_rewritten"):
            ok = False
    for vec1, o1 in zip(new["pars"], new["objs"][:3]):
        added_free = any(origin[n] is None and abs(vec1[c1.par_slice(n).start]) > 1e-6 for n in c1.par_order)
        if added_free:
            continue  # an added null systematic away from 0 has no counterpart in the original model
        v0 = obj(model0, data0, bwd(vec1))
        if not ctx.close("likelihood_at_mapped_point", v0, o1 - shift, 1e-7 * (1 + abs(o1)),
                         f"{sig}/likelihood_differs_at_mapped_point/rewritten_to_original"):
            ok = False
    return ok


def run_case(case, ctx):
    import pyhf

    spec = copy.deepcopy(case["spec"])
    spec.setdefault("parameters", [])
    state = {"spec": spec, "main": copy.deepcopy(case["main"]), "scale": 1.0, "added": 0, "origin": None}
    tight = pyhf.optimize.scipy_optimizer(tolerance=1e-10)
    tl = backends.use("numpy", optimizer=tight)
    mu = case["mu"]
    try:
        try:
            base, model0, data0 = best_infer(pyhf, case["spec"], case["main"], mu)
        except pyhf.exceptions.FailedMinimization:
            ctx.discard("FailedMinimization on the original model")
        if not (base["band"][2] < 0.9) or base["cls"] < 1e-12:
            ctx.discard("model not sensitive at the tested mu (median expected CLs >= 0.9) or CLs underflow")
        state["origin"] = {n: (n, 0) for n in model0.config.par_order}
        applied = []
        for step in case["steps"]:
            trial = copy.deepcopy(state)
            d = apply_rewrite(trial, step)
            if d is not None:
                state = trial
                applied.append(d)
        changed = state["spec"] != case["spec"] and bool(applied)
        tag = "+".join(applied) if applied else "none"
        if applied:
            k = state["scale"]
            try:
                new, model1, data1 = best_infer(pyhf, state["spec"], state["main"], mu / k)
            except pyhf.exceptions.FailedMinimization:
                ctx.discard("FailedMinimization on the rewritten model")
            except Exception as exc:  # noqa: BLE001
                from vlib.ctx import Discard, innermost_pyhf_frame

                if isinstance(exc, Discard):
                    raise
                w = innermost_pyhf_frame(exc)
                if w is None:
                    raise
                ctx.fail(f"C15/rewrite/{tag}/raises/{type(exc).__name__}@{w[0]}:{w[1]}", message=str(exc)[:200])
                return
            shift = state["added"] * math.log(2 * math.pi)
            sigs = sorted(set(applied))
            backends.use("numpy", optimizer=tight)
            same = cross_evaluate(ctx, pyhf, f"C15/rewrite/{'+'.join(sigs)}", base, model0, data0, new, model1, data1,
                                  state["origin"], k, shift)
            compare(ctx, f"C15/rewrite/{'+'.join(sigs)}", base, new, 5e-4, nll_shift=shift, detail={"rewrites": applied},
                    same_function=same)
        # second configuration: other backend (64-bit) or minuit at tight tolerance
        second = case["second"]
        if second:
            try:
                if second == "minuit":
                    backends.use("numpy", optimizer=pyhf.optimize.minuit_optimizer(tolerance=1e-4, strategy=2))
                    rel = 2e-3
                else:
                    backends.use(second, optimizer=pyhf.optimize.scipy_optimizer(tolerance=1e-10))
                    rel = 5e-4
                tl2 = pyhf.tensorlib
                other, m2, d2 = infer(pyhf, case["spec"], case["main"], mu, tl2)
                # reference run on numpy with the tight scipy optimiser (not best-of: a configuration comparison)
                backends.use("numpy", optimizer=pyhf.optimize.scipy_optimizer(tolerance=1e-10))
                ref_run, m1, d1 = infer(pyhf, case["spec"], case["main"], mu, pyhf.tensorlib)
                # the likelihood function itself must agree at the other configuration's fitted points
                fn_ok = True
                for pvec, obj in zip(other["pars"], other["objs"][:3]):
                    v = float(backends.tonp(pyhf.infer.mle.twice_nll(pvec, d1, m1))[0])
                    if abs(v - obj) > 1e-6 * (1 + abs(obj)):
                        fn_ok = False
                        ctx.fail(f"C15/configuration/{second}/objective_value_differs_at_same_point", got=obj, numpy=v)
                gap = max(abs(a - b) for a, b in zip(other["objs"], ref_run["objs"]))
                if fn_ok and gap > 2e-4:
                    # same function, different minimum: multi-modal likelihood / optimiser path dependence
                    ctx.label("configurations_reached_different_local_minima")
                else:
                    compare(ctx, f"C15/configuration/{second}", ref_run, other, rel)
            except pyhf.exceptions.FailedMinimization:
                ctx.label("FailedMinimization_second_configuration")
        kinds = sorted({m["type"] for c in case["spec"]["channels"] for s in c["samples"] for m in s["modifiers"]} - {"normfactor"})
        ctx.label(f"rewrites={len(applied)}", f"second={second}", *[f"rw={a}" for a in set(applied)])
        if len(kinds) >= 2 and (changed or second):
            shape = [(c["name"], len(c["samples"][0]["data"]),
                      sorted((s["name"], sorted((m["type"], m["name"]) for m in s["modifiers"]))
                             for s in c["samples"])) for c in case["spec"]["channels"]]
            ctx.nontrivial([shape, applied, second, case["main"], mu])
    finally:
        backends.reset()

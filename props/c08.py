"""C08 - hypothesis tests give the analytically known answer and a stable result layout."""
import itertools
import math

from hypothesis import strategies as st

from props.c06 import build, family_case
from vlib import backends, refstats

ID = "C08"
LEVEL = "exploration"
RULE = (
    "Hypothesis-generated counting models with closed-form profile likelihood and Asimov data (family A: "
    "1-4 bins in 1-2 channels; family C: on/off with one nuisance) x observed counts from 0 to far above "
    "expectation x tested mu x {q, qtilde, q0} x backend/optimizer, with all 16 return-flag combinations "
    "enumerated per case (asymptotics; toybased with few toys for the layout only). Oracles: closed-form "
    "q and q_A pushed through the 50-digit asymptotic formulae with a sensitivity envelope of +-delta on "
    "both (delta = fit tolerance on 2NLL); documented tuple layout for each of the 16 combinations with "
    "values identical to the all-flags call; Asimov parameters/data = closed form; refusals without POI "
    "or with the POI fixed. Non-trivial: observed != expected and (multi-bin or nuisance or fitted POI on "
    "the bound); distinct by (family shape, statistic, data, mu, backend, optimizer)."
)
ASSUMPTIONS = [
    "analytic oracle only for the counting families; toy values are C14's subject",
    "fits run with scipy_optimizer(tolerance=1e-10) / minuit_optimizer(tolerance=1e-4, strategy=2); envelope delta 1e-4 / 1e-3 on q and q_A; value check skipped when q_A < 20 delta or a tail argument exceeds 36",
]
FLAGS = list(itertools.product([False, True], repeat=4))
EXHAUSTIVE = False


def shards(tier):
    q = tier == "quick"
    out = []
    for i in range(7):
        out.append({"name": f"numpy_scipy{i}", "backend": "numpy", "optimizer": "scipy", "examples": 110 if q else 2000})
    for i in range(3):
        out.append({"name": f"numpy_minuit{i}", "backend": "numpy", "optimizer": "minuit", "examples": 70 if q else 1200})
    for i in range(2):
        out.append({"name": f"pytorch{i}", "backend": "pytorch", "optimizer": "scipy", "examples": 60 if q else 800})
    for i in range(2):
        out.append({"name": f"jax{i}", "backend": "jax", "optimizer": "scipy", "examples": 14 if q else 300})
    for i in range(2):
        out.append({"name": f"tensorflow{i}", "backend": "tensorflow", "optimizer": "scipy", "examples": 8 if q else 200})
    return out


@st.composite
def strategy_(draw, shard):
    case = draw(family_case())
    if draw(st.integers(0, 5)) == 0:  # observed count far from expectation
        if case["family"] == "A":
            case["data"] = [float(draw(st.sampled_from([0, 1, int(3 * (bi + 10 * si))]))) for si, bi in zip(case["s"], case["b"])]
        else:
            case["data"][0] = float(draw(st.sampled_from([0, 1, int(3 * (case["b"] + 10 * case["s"]))])))
    case["test_stat"] = draw(st.sampled_from(["qtilde", "qtilde", "q", "q0"]))
    case["backend"], case["optimizer"] = shard["backend"], shard["optimizer"]
    case["toys"] = shard["backend"] == "numpy" and draw(st.integers(0, 11)) == 0
    case["refusal"] = draw(st.sampled_from([None, None, None, "no_poi", "poi_fixed"]))
    # a negative POI lower bound reaches the test either through the model's own suggestion or through par_bounds
    case["bounds_by_argument"] = draw(st.booleans())
    return case


def strategy(shard):
    return strategy_(shard)


def expected_layout(flags, is_q0):
    tails, exp, expset, calc = flags
    lay = ["main"]
    if tails:
        lay.append("tails")
    if exp:
        lay.append("median")
    if expset:
        lay.append("band")
    if calc:
        lay.append("calc")
    return lay


def _f(v):
    return float(backends.tonp(v))


def _same(a, b):
    return a == b or (math.isnan(a) and math.isnan(b))


def _unconverged_fit(pyhf, calc, fam, case, tested, asimov_mu, data, fdata, asimov_data, model, delta, bounds):
    """Name of the first of the five fits behind a hypothesis test (taken from the calculator the test returned)
    whose objective exceeds the closed-form optimum on its dataset by more than delta *and* which a direct mle call
    with the intended arguments reproduces (same objective): an optimiser limitation.  None if all fits converged,
    or if the direct call does better than the test's own fit (then the test did not fit what it should have)."""
    fp = calc.fitted_pars
    tl = pyhf.tensorlib
    cfg = model.config
    init, fixed = cfg.suggested_init(), cfg.suggested_fixed()
    plan = [
        ("asimov-generating conditional fit", fp.asimov_pars, data, fdata, asimov_mu),
        ("conditional fit to data", fp.fixed_poi_fit_to_data, data, fdata, tested),
        ("free fit to data", fp.free_fit_to_data, data, fdata, None),
        ("conditional fit to Asimov data", fp.fixed_poi_fit_to_asimov, asimov_data, list(asimov_data), tested),
        ("free fit to Asimov data", fp.free_fit_to_asimov, asimov_data, list(asimov_data), None),
    ]
    for name, pars, full, fam_data, poi in plan:
        try:
            got = float(backends.tonp(pyhf.infer.mle.twice_nll(pars, tl.astensor(full), model)).reshape(-1)[0])
            ref = fam.unconditional(fam_data) if poi is None else fam.conditional(poi, fam_data)
            if ref[0] is None:
                return None
            if got <= 2 * ref[1] + delta:
                continue
            if poi is None:
                _, direct = pyhf.infer.mle.fit(list(full), model, init, bounds, fixed, return_fitted_val=True)
            else:
                _, direct = pyhf.infer.mle.fixed_poi_fit(poi, list(full), model, init, bounds, fixed, return_fitted_val=True)
            direct = float(backends.tonp(direct))
        except Exception:  # noqa: BLE001 - no diagnosis possible: keep the verdict
            return None
        if abs(direct - got) <= 1e-6 * (1 + abs(got)):
            return name
        return None
    return None


def run_case(case, ctx):
    import pyhf

    spec, fam = build(case)
    ts = case["test_stat"]
    mu = 0.0 if ts == "q0" else case["mu"]
    is_q0 = ts == "q0"
    if ts == "qtilde" and case["bounds"][0] != 0.0:
        # qtilde is defined for a POI bounded at zero
        case = dict(case, bounds=[0.0, case["bounds"][1]])
        spec, fam = build(case)
    # Fits are run to tight tolerance (SLSQP ftol 1e-10 / MIGRAD tol 1e-4, strategy 2): with the default
    # settings the optimiser noise (up to O(10) in 2NLL, see C05 known finding) would hide wiring errors.
    if case["optimizer"] == "scipy":
        opt = pyhf.optimize.scipy_optimizer(tolerance=1e-10)
    else:
        opt = pyhf.optimize.minuit_optimizer(tolerance=1e-4, strategy=2)
    by_arg = bool(case.get("bounds_by_argument")) and case["family"] == "A" and case["bounds"][0] != 0.0
    if by_arg:
        spec, _ = build(dict(case, bounds=[0.0, case["bounds"][1]]))  # the model itself suggests (0, hi)
    tl = backends.use(case["backend"], optimizer=opt)
    try:
        model = pyhf.Model(spec, poi_name="mu")
        cfg = model.config
        arg_bounds = [tuple(case["bounds"])] if by_arg else None
        data = list(case["data"])
        fdata = case["data"]
        sig = f"C08/{ts}"
        # ---- refusals --------------------------------------------------------------------------------
        if case["refusal"] == "no_poi":
            m2 = pyhf.Model(spec, poi_name=None)
            try:
                pyhf.infer.hypotest(mu, data, m2, test_stat=ts)
                ctx.fail(f"{sig}/no_poi_accepted")
            except pyhf.exceptions.UnspecifiedPOI:
                pass
            except Exception as exc:  # noqa: BLE001
                ctx.fail(f"{sig}/no_poi_raises_{type(exc).__name__}")
        elif case["refusal"] == "poi_fixed":
            fixed = cfg.suggested_fixed()
            fixed[cfg.poi_index] = True
            try:
                pyhf.infer.hypotest(mu, data, model, fixed_params=fixed, test_stat=ts)
                ctx.fail(f"{sig}/fixed_poi_accepted")
            except pyhf.exceptions.InvalidModel:
                pass
            except Exception as exc:  # noqa: BLE001
                ctx.fail(f"{sig}/fixed_poi_raises_{type(exc).__name__}")
        # ---- all-flags call -----------------------------------------------------------------------------
        calctype = "toybased" if case["toys"] else "asymptotics"
        kw = {"test_stat": ts, "calctype": calctype}
        if arg_bounds:
            kw["par_bounds"] = arg_bounds
        if case["toys"]:
            kw.update(ntoys=12, track_progress=False)
            import numpy as np

            np.random.seed(1234)
        try:
            full = pyhf.infer.hypotest(mu, data, model, return_tail_probs=True, return_expected=True,
                                       return_expected_set=True, return_calculator=True, **kw)
        except pyhf.exceptions.FailedMinimization:
            if case["optimizer"] == "scipy" and case["backend"] == "numpy":
                ctx.fail(f"{sig}/FailedMinimization_on_closed_form_family/{case['family']}")
                return
            ctx.discard("FailedMinimization")
        except Exception as exc:  # noqa: BLE001
            from vlib.ctx import innermost_pyhf_frame

            w = innermost_pyhf_frame(exc)
            if w is None:
                raise
            ctx.fail(f"{sig}/{calctype}/raises/{type(exc).__name__}@{w[0]}:{w[1]}", message=str(exc)[:200])
            return
        if not (isinstance(full, tuple) and len(full) == 5):
            ctx.fail(f"{sig}/layout/all_flags_not_5_tuple", got=repr(type(full)))
            return
        main, tails, median, band, calc = full
        ntails = 1 if is_q0 else 2
        if len(tails) != ntails or len(band) != 5:
            ctx.fail(f"{sig}/layout/tails_or_band_length", ntails=len(tails), nband=len(band))
            return
        want_calc = pyhf.infer.calculators.ToyCalculator if case["toys"] else pyhf.infer.calculators.AsymptoticCalculator
        if not isinstance(calc, want_calc):
            ctx.fail(f"{sig}/layout/calculator_type", got=type(calc).__name__)
        vals = {"main": _f(main), "tails": [_f(t) for t in tails], "median": _f(median), "band": [_f(b) for b in band]}
        if vals["median"] != vals["band"][2] and not (math.isnan(vals["median"]) and math.isnan(vals["band"][2])):
            ctx.fail(f"{sig}/layout/median_ne_band_centre", median=vals["median"], band=vals["band"])
        # ---- the 16 flag combinations (asymptotics is deterministic: values must be identical) --------------
        if not case["toys"]:
            # tensorflow costs ~1 s per fit: a fixed subset of 4 of the 16 combinations there
            flagset = FLAGS if case["backend"] != "tensorflow" else [FLAGS[0], FLAGS[5], FLAGS[10], FLAGS[14]]
            for flags in flagset:
                lay = expected_layout(flags, is_q0)
                r = pyhf.infer.hypotest(mu, data, model, return_tail_probs=flags[0], return_expected=flags[1],
                                        return_expected_set=flags[2], return_calculator=flags[3], **kw)
                tag = "".join("1" if f else "0" for f in flags)
                if len(lay) == 1:
                    if isinstance(r, (tuple, list)):
                        ctx.fail(f"{sig}/layout/{tag}/bare_value_expected")
                        continue
                    r = (r,)
                if not isinstance(r, tuple) or len(r) != len(lay):
                    ctx.fail(f"{sig}/layout/{tag}/length", got=len(r) if isinstance(r, tuple) else -1, want=len(lay))
                    continue
                for item, kind in zip(r, lay):
                    try:
                        if kind == "main":
                            ok = _same(_f(item), vals["main"])
                        elif kind == "tails":
                            ok = len(item) == ntails and all(_same(_f(t), w) for t, w in zip(item, vals["tails"]))
                        elif kind == "median":
                            ok = _same(_f(item), vals["median"])
                        elif kind == "band":
                            ok = len(item) == 5 and all(_same(_f(b), w) for b, w in zip(item, vals["band"]))
                        else:
                            ok = isinstance(item, want_calc)
                    except Exception:  # noqa: BLE001
                        ok = False
                    if not ok:
                        ctx.fail(f"{sig}/layout/{tag}/{kind}_differs_from_all_flags_call")
            ctx.count("flag_combinations_checked", len(flagset))
            # flags left out take their documented default (False): no flag -> the bare value, one flag -> that extra only
            names = ["return_tail_probs", "return_expected", "return_expected_set", "return_calculator"]
            r0 = pyhf.infer.hypotest(mu, data, model, **kw)
            if isinstance(r0, (tuple, list)) or not _same(_f(r0), vals["main"]):
                ctx.fail(f"{sig}/layout/defaults/bare_value_expected", got=type(r0).__name__)
            if case["backend"] != "tensorflow":
                for i, nm in enumerate(names):
                    r1 = pyhf.infer.hypotest(mu, data, model, **{nm: True}, **kw)
                    if not isinstance(r1, tuple) or len(r1) != 2:
                        ctx.fail(f"{sig}/layout/defaults/only_{nm}", got=len(r1) if isinstance(r1, tuple) else -1)
        # ---- ranges ---------------------------------------------------------------------------------------
        for nm, v in [("main", vals["main"]), ("median", vals["median"])] + [("tail", t) for t in vals["tails"]] + [("band", b) for b in vals["band"]]:
            if case["toys"]:
                # ratios of two independent empirical tail fractions: only non-negativity is structural
                if v < 0.0:
                    ctx.fail(f"{sig}/{calctype}/negative_value/{nm}", value=v)
                continue
            if math.isnan(v) and nm in ("main", "median", "band"):
                continue  # 0/0 when both tail probabilities underflow (far beyond 37 sigma)
            if not (0.0 <= v <= 1.0 + 1e-12):
                ctx.fail(f"{sig}/{calctype}/value_out_of_range/{nm}", value=v)
        if case["toys"]:
            ctx.label("toybased_layout_only", f"test_stat={ts}")
            ctx.nontrivial([case["family"], ts, "toys", data, mu])
            return
        # ---- analytic values ------------------------------------------------------------------------------
        asimov_mu = 1.0 if is_q0 else 0.0
        ap = [float(v) for v in backends.tonp(calc.fitted_pars.asimov_pars)]
        if ap[cfg.poi_index] != asimov_mu:
            ctx.fail(f"{sig}/asimov_poi", got=ap[cfg.poi_index], want=asimov_mu)
        if case["family"] == "A":
            asimov = fam.asimov(asimov_mu)
        else:
            asimov = fam.asimov(asimov_mu, fdata)
        okA, got_asimov = ctx.call(f"{sig}/generate_asimov_data", pyhf.infer.calculators.generate_asimov_data,
                                   asimov_mu, data, model, cfg.suggested_init(), arg_bounds or cfg.suggested_bounds(), cfg.suggested_fixed())
        delta = 1e-4 if case["optimizer"] == "scipy" else 1e-3
        if okA:
            ga = [float(v) for v in backends.tonp(got_asimov)]
            for k, (g, w) in enumerate(zip(ga, asimov)):
                ctx.close("asimov", g, w, 1e-4 * (1 + abs(w)), f"{sig}/asimov_data_ne_closed_form/{case['family']}", index=k)
        if is_q0:
            qr, _, pu, _ = refstats.q0(fam, fdata)
            qA, _, _, _ = refstats.q0(fam, asimov)
        else:
            qr, _, pu, _ = refstats.qmu_like(fam, mu, fdata)
            qA, _, _, _ = refstats.qmu_like(fam, mu, asimov)
        seam = (not is_q0 and abs(pu[0] - mu) < 2e-3) or (is_q0 and abs(pu[0]) < 2e-3)
        from props.c07 import _args

        sensitive = qA > 20 * delta and math.sqrt(qA) + 2 < 36 and all(
            abs(a) < 36 for a in _args(qr, qA, ts)) and all(abs(a) < 36 for a in _args(qr + delta, max(qA - delta, 1e-12), ts))
        if sensitive:
            lo = {k: math.inf for k in ("main", "t0", "t1", "b0", "b1", "b2", "b3", "b4")}
            hi = {k: -math.inf for k in lo}
            qs = [max(0.0, qr - delta), qr, qr + delta] + ([0.0] if seam else [])
            for q_ in qs:
                for qa_ in (qA - delta, qA, qA + delta):
                    clsb, clb, cls = refstats.asymptotic_pvalues(q_, qa_, ts)
                    bandv = refstats.expected_band(qa_)
                    cur = {"main": float(clsb if is_q0 else cls), "t0": float(clb if is_q0 else clsb), "t1": float(clb)}
                    for i in range(5):
                        cur[f"b{i}"] = float(bandv[i][0] if is_q0 else bandv[i][2])
                    for k, v in cur.items():
                        lo[k], hi[k] = min(lo[k], v), max(hi[k], v)
            got = {"main": vals["main"], "t0": vals["tails"][0], "t1": vals["tails"][-1]}
            for i in range(5):
                got[f"b{i}"] = vals["band"][i]
            bad = [k for k, v in got.items() if not (lo[k] - (1e-9 + 1e-6 * hi[k]) <= v <= hi[k] + (1e-9 + 1e-6 * hi[k]))]
            if bad and okA:
                which = _unconverged_fit(pyhf, calc, fam, case, 0.0 if is_q0 else mu, asimov_mu, data, fdata, ga, model, delta,
                                         arg_bounds or cfg.suggested_bounds())
                if which:
                    # the envelope presupposes fits converged to `delta`; this one is not (optimiser limitation
                    # recorded under C05), the values computed from it say nothing about hypotest
                    ctx.excluded(f"analytic comparison skipped: {which} ended above the closed-form optimum by more "
                                 f"than {delta} ({case['optimizer']}; optimiser limitation recorded under C05)")
                    got = {}
            for k, v in got.items():
                w = 1e-9 + 1e-6 * hi[k]
                ok = lo[k] - w <= v <= hi[k] + w
                ctx.err("analytic", 0.0 if ok else float("inf"))
                if not ok:
                    kind = "observed" if k in ("main", "t0", "t1") else "expected_band"
                    ctx.fail(f"{sig}/analytic_value/{kind}/{case['family']}", which=k, got=v, lo=lo[k], hi=hi[k],
                             q=qr, qA=qA, mu=mu)
        multibin = case["family"] == "C" or len(case["s"]) > 1
        if arg_bounds:
            ctx.label("poi_bounds_passed_as_argument")
        ctx.label(f"test_stat={ts}", f"family={case['family']}", f"backend={case['backend']}",
                  f"optimizer={case['optimizer']}")
        if sensitive:
            ctx.label("analytic_value_checked")
        if seam:
            ctx.label("near_zeroing_seam")
        on_bound = abs(pu[0] - case["bounds"][0]) < 1e-9
        if on_bound:
            ctx.label("fitted_poi_on_bound")
        if multibin or on_bound:
            ctx.nontrivial([case["family"], case.get("split"), ts, data, mu, case["backend"], case["optimizer"]])
    finally:
        backends.reset()

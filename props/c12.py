"""C12 - the model configuration is a consistent partition and honours overrides."""
import copy
import math

from hypothesis import strategies as st

from vlib import backends, gen_spec
from vlib.refmodel import RefModel

ID = "C12"
LEVEL = "exploration"
RULE = (
    "Hypothesis-generated workspaces (1-3 measurements with admissible override sets, shuffled lists) "
    "plus a generated permutation of the channel / sample / modifier / measurement-parameter / observation "
    "lists. Oracles: slices tile the parameter vector in par_order; one init/bound/fixed/name per "
    "component; channel slices tile the main data; nauxdata = sum of constrained components in "
    "auxdata_order; poi_index; every override verbatim and documented defaults otherwise (independent "
    "parameter table) and in the constraint terms (constraint_logpdf / expected_auxdata off nominal against "
    "the reference terms); Workspace.data layout; Workspace.build round trip (config, data, likelihood); "
    "deep equality of the caller's spec before/after; config and log-density identical under the "
    "permutation. Non-trivial: listing order != sorted order, >=1 override, a bin-wise set before a "
    "scalar one in par_order; distinct by (shape signature, override keys, measurement)."
)
ASSUMPTIONS = [
    "defaults per modifier type as documented (vlib/refmodel.py parameter table)",
    "the schema allows only a boolean 'fixed' per parameter set; mixed per-bin fixed flags can only be defaults",
]


def shards(tier):
    q = tier == "quick"
    out = [{"name": f"numpy{i}", "backend": "numpy", "examples": 330 if q else 3000, "big": i % 4 == 3}
           for i in range(14)]
    if not q:
        out += [{"name": f"fuzz{i}", "kind": "fuzz", "backend": "numpy", "runs": 3000, "big": i == 1} for i in range(2)]
    return out


@st.composite
def permuted(draw, ws):
    w = copy.deepcopy(ws)
    w["channels"] = list(draw(st.permutations(w["channels"])))
    for c in w["channels"]:
        c["samples"] = list(draw(st.permutations(c["samples"])))
        for s in c["samples"]:
            s["modifiers"] = list(draw(st.permutations(s["modifiers"])))
    for m in w["measurements"]:
        m["config"]["parameters"] = list(draw(st.permutations(m["config"]["parameters"])))
    w["observations"] = list(draw(st.permutations(w["observations"])))
    return w


@st.composite
def strategy_(draw, shard):
    big = shard.get("big")
    ws = draw(gen_spec.workspaces(max_channels=4 if big else 3, max_bins=5 if big else 4))
    mi = draw(st.integers(0, len(ws["measurements"]) - 1))
    return {"ws": ws, "measurement": mi, "perm": draw(permuted(ws)), "backend": shard["backend"]}


def strategy(shard):
    return strategy_(shard)


def _cfg_summary(cfg):
    out = {
        "par_order": list(cfg.par_order),
        "slices": [[cfg.par_slice(n).start, cfg.par_slice(n).stop] for n in cfg.par_order],
        "init": [float(v) for v in cfg.suggested_init()],
        "bounds": [[float(a), float(b)] for a, b in cfg.suggested_bounds()],
        "fixed": [bool(v) for v in cfg.suggested_fixed()],
        "names": list(cfg.par_names),
        "auxdata": [float(v) for v in cfg.auxdata],
        "auxdata_order": list(cfg.auxdata_order),
        "channels": list(cfg.channels),
        "channel_slices": {c: [s.start, s.stop] for c, s in cfg.channel_slices.items()},
        "poi_index": cfg.poi_index,
        "poi_name": cfg.poi_name,
        "npars": cfg.npars,
    }
    return out


def check_config(ctx, cfg, ref, poi):
    """Structural consistency of one model configuration against the independent parameter table."""
    # (a) slices tile [0, npars) in par_order
    pos = 0
    for name in cfg.par_order:
        sl = cfg.par_slice(name)
        if sl.start != pos or sl.stop <= sl.start or sl.step not in (None, 1):
            ctx.fail("C12/par_slices_do_not_tile", parameter=name, slice=str(sl), expected_start=pos)
            return False
        pos = sl.stop
    if pos != cfg.npars:
        ctx.fail("C12/npars_ne_end_of_slices", npars=cfg.npars, end=pos)
        return False
    if sorted(cfg.par_order) != sorted(ref.params):
        ctx.fail("C12/par_order_names", got=sorted(cfg.par_order), want=sorted(ref.params))
        return False
    init, bounds, fixed, names = (cfg.suggested_init(), cfg.suggested_bounds(), cfg.suggested_fixed(),
                                  cfg.par_names)
    for label, seq in (("init", init), ("bounds", bounds), ("fixed", fixed), ("par_names", names)):
        if len(seq) != cfg.npars:
            ctx.fail(f"C12/length/{label}", got=len(seq), want=cfg.npars)
            return False
    if len(set(names)) != len(names):
        ctx.fail("C12/par_names_not_unique", names=names)
    # per-parameter: sizes, naming rule, overrides verbatim / defaults
    for name in cfg.par_order:
        p = ref.params[name]
        sl = cfg.par_slice(name)
        if sl.stop - sl.start != p.n:
            ctx.fail("C12/paramset_size", parameter=name, got=sl.stop - sl.start, want=p.n,
                     kinds=sorted(p.kinds))
            return False
        want_names = [name] if p.scalar else [f"{name}[{i}]" for i in range(p.n)]
        if list(names[sl]) != want_names:
            ctx.fail("C12/par_names_rule", parameter=name, got=list(names[sl]), want=want_names)
        kind = "+".join(sorted(p.kinds))
        ov = "override" if p.overridden else "default"
        if [float(v) for v in init[sl]] != [float(v) for v in p.inits]:
            ctx.fail(f"C12/suggested_init/{kind}/{'override' if 'inits' in p.overridden else 'default'}",
                     parameter=name, got=list(init[sl]), want=p.inits)
        if [tuple(map(float, b)) for b in bounds[sl]] != [tuple(map(float, b)) for b in p.bounds]:
            ctx.fail(f"C12/suggested_bounds/{kind}/{'override' if 'bounds' in p.overridden else 'default'}",
                     parameter=name, got=[list(b) for b in bounds[sl]], want=[list(b) for b in p.bounds])
        if [bool(v) for v in fixed[sl]] != [bool(v) for v in p.fixed]:
            ctx.fail(f"C12/suggested_fixed/{kind}/{'override' if 'fixed' in p.overridden else 'default'}",
                     parameter=name, got=list(fixed[sl]), want=p.fixed)
        ps = cfg.param_set(name)
        if p.constraint is None:
            if getattr(ps, "constrained", None):
                ctx.fail(f"C12/unconstrained_reported_constrained/{kind}", parameter=name)
        else:
            if not getattr(ps, "constrained", False) or ps.pdf_type != p.constraint:
                ctx.fail(f"C12/constraint_type/{kind}", parameter=name, got=getattr(ps, "pdf_type", None),
                         want=p.constraint)
                continue
            if not _close_list(ps.auxdata, p.auxdata):
                ctx.fail(f"C12/paramset_auxdata/{kind}/{ov}", parameter=name, got=list(ps.auxdata), want=p.auxdata)
            if p.constraint == "normal":
                want_s = p.sigmas if p.sigmas is not None else [1.0] * p.n
                if not _close_list(ps.width(), want_s):
                    ctx.fail(f"C12/paramset_sigmas/{kind}/{'override' if 'sigmas' in p.overridden else 'default'}",
                             parameter=name, got=list(ps.width()), want=want_s)
            else:
                if not _close_list(ps.factors, p.factors):
                    ctx.fail(f"C12/paramset_factors/{kind}/{'override' if 'factors' in p.overridden else 'default'}",
                             parameter=name, got=list(ps.factors), want=p.factors)
    # (b) channel slices
    if list(cfg.channels) != sorted(ref.channels) and sorted(cfg.channels) != sorted(ref.channels):
        ctx.fail("C12/channels", got=list(cfg.channels), want=ref.channels)
        return False
    pos = 0
    for c in cfg.channels:
        sl = cfg.channel_slices[c]
        if sl.start != pos or sl.stop - sl.start != ref.nbins[c] or cfg.channel_nbins[c] != ref.nbins[c]:
            ctx.fail("C12/channel_slices_do_not_tile", channel=c, slice=str(sl), want_start=pos,
                     want_width=ref.nbins[c])
            return False
        pos = sl.stop
    if cfg.nmaindata != pos:
        ctx.fail("C12/nmaindata", got=cfg.nmaindata, want=pos)
    # (c) auxiliary data
    con = {p.name: p for p in ref.constrained()}
    if sorted(cfg.auxdata_order) != sorted(con) or len(set(cfg.auxdata_order)) != len(cfg.auxdata_order):
        ctx.fail("C12/auxdata_order", got=list(cfg.auxdata_order), want=sorted(con))
        return False
    want_aux = [v for n in cfg.auxdata_order for v in con[n].auxdata]
    if cfg.nauxdata != len(want_aux) or cfg.nauxdata != sum(con[n].n for n in cfg.auxdata_order):
        ctx.fail("C12/nauxdata", got=cfg.nauxdata, want=len(want_aux))
    elif not _close_list(cfg.auxdata, want_aux):
        ctx.fail("C12/config_auxdata", got=[float(v) for v in cfg.auxdata], want=want_aux)
    # (d) poi
    if poi:
        if cfg.poi_name != poi or cfg.poi_index != cfg.par_slice(poi).start:
            ctx.fail("C12/poi_index", poi=poi, got_name=cfg.poi_name, got_index=cfg.poi_index)
    else:
        if cfg.poi_name is not None or cfg.poi_index is not None:
            ctx.fail("C12/poi_should_be_unset", got_name=cfg.poi_name)
    return True


def _close_list(a, b, rel=1e-12):
    a, b = list(a), list(b)
    return len(a) == len(b) and all(abs(float(x) - float(y)) <= rel * (1 + abs(float(y))) for x, y in zip(a, b))


def run_case(case, ctx):
    import pyhf

    ws_in = case["ws"]
    mi = case["measurement"]
    meas = ws_in["measurements"][mi]
    poi = meas["config"]["poi"]
    spec = gen_spec.model_spec_of(ws_in, mi)
    ref = RefModel(spec)
    backends.use("numpy")
    try:
        before = copy.deepcopy(ws_in)
        ok, ws = ctx.call("C12/Workspace", pyhf.Workspace, ws_in)
        if not ok:
            return
        ok, model = ctx.call("C12/Workspace.model", ws.model, measurement_name=meas["name"])
        if not ok:
            return
        if ws_in != before:
            ctx.fail("C12/input_mutated/Workspace_or_model")
        cfg = model.config
        if not check_config(ctx, cfg, ref, poi):
            return
        # the same measurement selected by index, and a POI override by name
        ok, mi_model = ctx.call("C12/Workspace.model_by_index", ws.model, measurement_index=mi)
        if ok and _cfg_summary(mi_model.config) != _cfg_summary(cfg):
            ctx.fail("C12/model_by_index_differs_from_model_by_name", measurement=meas["name"], index=mi)
        other = [n for n in sorted(ref.params) if ref.params[n].n == 1 and n != poi]
        if other:
            ok, mo = ctx.call("C12/Workspace.model_poi_override", ws.model, measurement_name=meas["name"], poi_name=other[0])
            if ok and (mo.config.poi_name != other[0] or mo.config.poi_index != mo.config.par_slice(other[0]).start):
                ctx.fail("C12/poi_name_override_not_honoured", want=other[0], got=mo.config.poi_name)
        ok, mn = ctx.call("C12/Workspace.model_poiless", ws.model, measurement_name=meas["name"], poi_name=None)
        if ok and (mn.config.poi_name is not None or mn.config.poi_index is not None):
            ctx.fail("C12/poi_name_None_not_honoured", got=mn.config.poi_name)
        # direct Model construction from the same spec gives the same configuration
        spec_before = copy.deepcopy(spec)
        ok, m2 = ctx.call("C12/Model", pyhf.Model, spec, poi_name=poi or None)
        if ok:
            if spec != spec_before:
                ctx.fail("C12/input_mutated/Model")
            if _cfg_summary(m2.config) != _cfg_summary(cfg):
                ctx.fail("C12/Model_vs_Workspace.model_config_differs")
        # (f) data layout
        obs = {o["name"]: o["data"] for o in ws_in["observations"]}
        ok, d = ctx.call("C12/Workspace.data", ws.data, model)
        ok2, dm = ctx.call("C12/Workspace.data_noaux", ws.data, model, include_auxdata=False)
        if not (ok and ok2):
            return
        want_main = [float(v) for c in cfg.channels for v in obs[c]]
        if [float(v) for v in dm] != want_main:
            ctx.fail("C12/Workspace.data_main_layout", got=list(dm), want=want_main)
        if [float(v) for v in d] != want_main + [float(v) for v in cfg.auxdata]:
            ctx.fail("C12/Workspace.data_full_layout", got=list(d))
        if ws_in != before or dict(ws) != before:
            ctx.fail("C12/input_mutated/Workspace.data")
        ok, d_again = ctx.call("C12/Workspace.data", ws.data, model)
        if ok and list(d_again) != list(d):
            ctx.fail("C12/Workspace.data_not_repeatable")
        # (h) overrides appear verbatim in the constraint terms: evaluate them off nominal against the reference
        if ref.constrained():
            from vlib.refmodel import aux_to_flat, pars_to_flat

            tl = pyhf.tensorlib
            rp = ref.inits()
            for k_, p in enumerate(ref.constrained()):
                lo = [b[0] for b in p.bounds]
                hi = [b[1] for b in p.bounds]
                rp[p.name] = [min(max(v * (1.0 + 0.03 * ((k_ + j) % 3 + 1)) + 0.01, lo[j]), hi[j])
                              for j, v in enumerate(rp[p.name])]
            raux = {p.name: [a * 1.07 + 0.05 if p.constraint == "normal" else a * 1.07 + 1.0 for a in p.auxdata]
                    for p in ref.constrained()}
            fp, fa = pars_to_flat(cfg, rp), aux_to_flat(cfg, ref, raux)
            okc, conl = ctx.call("C12/constraint_logpdf", model.constraint_logpdf, tl.astensor(fa), tl.astensor(fp))
            oke, eaux = ctx.call("C12/expected_auxdata", model.expected_auxdata, tl.astensor(fp))
            if okc and oke:
                terms = ref.constraint_terms(rp, raux)
                want = math.fsum(t[2] for t in terms)
                scale = math.fsum(abs(t[2]) for t in terms if math.isfinite(t[2]))
                over_c = sorted({o for p in ref.constrained() for o in p.overridden if o in ("auxdata", "sigmas", "factors")})
                tag = "+".join(over_c) if over_c else "default"
                if math.isfinite(want):
                    ctx.close("constraint", float(backends.tonp(conl).reshape(-1)[0]), want, 1e-10 * (1 + scale),
                              f"C12/constraint_term_value/{tag}")
                ea = ref.expected_aux(rp)
                wea = [v for n in cfg.auxdata_order for v in ea[n]]
                if not _close_list(backends.tonp(eaux).reshape(-1), wea):
                    ctx.fail(f"C12/expected_auxdata_value/{tag}", got=[float(v) for v in backends.tonp(eaux).reshape(-1)], want=wea)
        # (g) build round trip
        mixed_fixed = any(len(set(p.fixed)) > 1 for p in ref.params.values())
        sig = "C12/Workspace.build" + ("/mixed_fixed_flags" if mixed_fixed else "") + (
            "/lumi" if "lumi" in ref.params else "") + ("/poiless" if not poi else "")
        okb, ws2 = ctx.call(sig, pyhf.Workspace.build, model, dm)
        if okb:
            okm, m3 = ctx.call(sig + "/model", ws2.model)
            if okm:
                a, b = _cfg_summary(m3.config), _cfg_summary(cfg)
                for k in a:
                    if a[k] != b[k] and not (k in ("auxdata", "init") and _close_list(a[k], b[k])):
                        over = sorted({o for p in ref.params.values() for o in p.overridden})
                        ctx.fail(f"C12/Workspace.build_config_differs/{k}", got=a[k], want=b[k], overrides=over)
                for name in cfg.par_order:
                    p = ref.params[name]
                    ps, ps0 = m3.config.param_set(name), cfg.param_set(name)
                    if p.constraint == "normal" and not _close_list(ps.width(), ps0.width()):
                        ctx.fail("C12/Workspace.build_config_differs/sigmas", parameter=name,
                                 got=list(ps.width()), want=list(ps0.width()))
                    if p.constraint == "poisson" and not _close_list(ps.factors, ps0.factors):
                        ctx.fail("C12/Workspace.build_config_differs/factors", parameter=name,
                                 got=list(ps.factors), want=list(ps0.factors))
                okd, d3 = ctx.call(sig + "/data", ws2.data, m3)
                if okd and not _close_list(d3, d):
                    ctx.fail("C12/Workspace.build_data_differs", got=list(d3), want=list(d))
                if sorted(c["name"] for c in ws2["channels"]) != sorted(c["name"] for c in ws_in["channels"]):
                    ctx.fail("C12/Workspace.build_channels_differ")
        # (i) permutation invariance of configuration and log-density
        okp, wsp = ctx.call("C12/Workspace_permuted", pyhf.Workspace, case["perm"])
        if okp:
            okp, mp_ = ctx.call("C12/Workspace_permuted.model", wsp.model, measurement_name=meas["name"])
        if okp:
            a, b = _cfg_summary(mp_.config), _cfg_summary(cfg)
            for k in a:
                if a[k] != b[k]:
                    ctx.fail(f"C12/listing_order_dependence/{k}", got=a[k], want=b[k])
                    break
            else:
                dp = wsp.data(mp_)
                if list(dp) != list(d):
                    ctx.fail("C12/listing_order_dependence/data", got=list(dp), want=list(d))
                else:
                    pars = cfg.suggested_init()
                    if ref.rates_safely_positive(ref.inits()):
                        l1 = float(backends.tonp(model.logpdf(pars, d))[0])
                        l2 = float(backends.tonp(mp_.logpdf(pars, dp))[0])
                        if not (l1 == l2 or (math.isnan(l1) and math.isnan(l2)) or
                                abs(l1 - l2) <= 1e-12 * (1 + abs(l1))):
                            ctx.fail("C12/listing_order_dependence/logpdf", got=l2, want=l1)
        # classification
        listing_unsorted = (
            [c["name"] for c in ws_in["channels"]] != sorted(c["name"] for c in ws_in["channels"])
            or any([s["name"] for s in c["samples"]] != sorted(s["name"] for s in c["samples"])
                   for c in ws_in["channels"]))
        over = sorted({(p.name, o) for p in ref.params.values() for o in p.overridden if p.name != "lumi"})
        order = list(cfg.par_order)
        binwise_first = any(ref.params[a].n > 1 and any(ref.params[b].n == 1 for b in order[i + 1:])
                            for i, a in enumerate(order))
        ctx.label(f"measurements={len(ws_in['measurements'])}", f"channels={len(ws_in['channels'])}")
        if over:
            ctx.label("has_override")
        if binwise_first:
            ctx.label("binwise_set_before_scalar")
        if mixed_fixed:
            ctx.label("mixed_fixed_flags")
        if "lumi" in ref.params:
            ctx.label("has_lumi")
        if not poi:
            ctx.label("poiless")
        if listing_unsorted and over and binwise_first:
            shape = [(c["name"], len(c["samples"][0]["data"]),
                      sorted((s["name"], sorted((m["type"], m["name"]) for m in s["modifiers"]))
                             for s in c["samples"])) for c in ws_in["channels"]]
            ctx.nontrivial([shape, [list(o) for o in over], mi])
    finally:
        backends.reset()

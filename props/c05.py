"""C05 - maximum-likelihood fits return a feasible, honest, optimal point."""
import math

from hypothesis import strategies as st

from props.c06 import build, family_case
from vlib import backends, gen_spec, refstats
from vlib.gen_spec import nice_float
from vlib.refmodel import RefModel, flat_to_pars

ID = "C05"
LEVEL = "exploration"
RULE = (
    "Hypothesis-generated models with closed-form optimum (A: signal-strength only, B: one free "
    "normfactor per bin, C: on/off), small well-posed general models and strongly correlated models (K: signal "
    "normfactor x normsys against a free background normalisation with per-bin shapesys) x data around the expectation "
    "(zero counts, Asimov non-integers) x init points / bounds / fixed masks x {fit, fixed_poi_fit} x "
    "{scipy, minuit} x backend x do_grad x do_stitch (all flag combinations of the shard run on every "
    "case; numpy+minuit additionally with strategy=0, the MIGRAD strategy pyhf selects when gradients are used). Oracles whenever a fit returns: inside bounds; fixed parameters and fixed POI at the supplied "
    "value; reported objective == 2*reference NLL at the returned point; minuit uncertainties 0 for fixed "
    "parameters; a minuit success is backed by a MINUIT state (return_result_obj) that MINUIT itself calls valid; objective <= closed-form optimum / best objective among 60 random feasible points, "
    "perturbations, an independent L-BFGS-B polish of the reference objective and the other configurations (+ tolerance); closed-form families must succeed. "
    "Non-trivial: >=1 free nuisance, optimum on a bound, or non-empty fixed mask; distinct by (model "
    "signature, mask, data, optimizer, backend)."
)
ASSUMPTIONS = [
    "tol_opt on 2NLL: 2e-4 scipy (default SLSQP ftol 1e-6), 2e-3 minuit (tolerance 0.1); optimality can "
    "only be refuted ('any other feasible point' is sampled)",
    "reference NLL from vlib/refmodel.py, closed forms from vlib/refstats.py",
    "a stand-alone HESSE (iminuit strategy 2, reference objective) at every minuit success is recorded as a metric "
    "(max EDM / limit), not as a verdict: on nearly degenerate models it exceeds MINUIT's own estimate by large "
    "factors on the unchanged tree",
]


def shards(tier):
    q = tier == "quick"
    out = []
    for i in range(7):
        out.append({"name": f"numpy_scipy{i}", "backend": "numpy", "optimizer": "scipy", "examples": 170 if q else 1500})
    for i in range(4):
        out.append({"name": f"numpy_minuit{i}", "backend": "numpy", "optimizer": "minuit", "examples": 110 if q else 1000})
    for i in range(2):
        out.append({"name": f"pytorch{i}", "backend": "pytorch", "optimizer": "scipy", "examples": 55 if q else 500})
    out.append({"name": "pytorch_minuit0", "backend": "pytorch", "optimizer": "minuit", "examples": 40 if q else 400})
    out.append({"name": "jax0", "backend": "jax", "optimizer": "scipy", "examples": 8 if q else 150})
    out.append({"name": "tensorflow0", "backend": "tensorflow", "optimizer": "scipy", "examples": 8 if q else 120})
    return out


@st.composite
def family_b(draw):
    nb = draw(st.integers(2, 4))
    s = [draw(nice_float(2.0, 20.0)) for _ in range(nb)]
    b = [draw(nice_float(5.0, 80.0)) for _ in range(nb)]
    n = []
    for si, bi in zip(s, b):
        e = si * draw(st.sampled_from([0.0, 0.5, 1.0, 2.0])) + bi
        w = 2.5 * math.sqrt(e)
        n.append(float(max(0, round(e + draw(nice_float(-w, w))))))
    return {"family": "B", "s": s, "b": b, "data": n, "mu": 1.0, "bounds": [0.0, 10.0]}


def spec_b(case):
    chans = []
    for i, (si, bi) in enumerate(zip(case["s"], case["b"])):
        chans.append({"name": f"ch{i}", "samples": [
            {"name": "signal", "data": [si], "modifiers": [{"name": f"mu{i}" if i else "mu", "type": "normfactor", "data": None}]},
            {"name": "background", "data": [bi], "modifiers": []}]})
    return {"channels": chans, "parameters": []}


@st.composite
def general_case(draw):
    spec = draw(gen_spec.specs(max_channels=2, max_bins=2, max_samples=3, wellposed=True, overrides=False,
                               kinds=("normfactor", "normsys", "histosys", "shapesys", "staterror", "lumi")))
    ref = RefModel(spec)
    truth = draw(gen_spec.points(ref, positive=True, max_alpha=1.5, in_bounds=True, at_init_prob=0.5))
    exp = ref.expected_main(truth)
    main = {}
    for c in ref.channels:
        main[c] = []
        for e in exp[c]:
            k = draw(st.integers(0, 7))
            w = 2.0 * math.sqrt(max(e, 1.0))
            main[c].append(float(f"{e:.6g}") if k == 0 else float(max(0, round(e + draw(nice_float(-w, w))))))
    return {"family": "G", "spec": spec, "mu": draw(nice_float(0.0, 3.0)), "main": main}


@st.composite
def correlated_case(draw):
    """K: signal normfactor x normsys against a free background normalisation with a similar shape and a
    per-bin shapesys - strongly correlated, not degenerate (the shapes differ and the nuisances are constrained)"""
    nb = draw(st.integers(2, 4))
    bkg = [float(draw(st.integers(60, 300))) for _ in range(nb)]
    frac = draw(nice_float(0.08, 0.3))
    sig = [float(max(1, round(b * frac * draw(nice_float(0.7, 1.3))))) for b in bkg]
    unc = [float(max(1, round(b * draw(nice_float(0.05, 0.3))))) for b in bkg]
    hi = draw(nice_float(1.05, 1.3))
    lo = draw(nice_float(0.75, 0.95))
    spec = {"channels": [{"name": "ch", "samples": [
        {"name": "sig", "data": sig, "modifiers": [{"name": "mu", "type": "normfactor", "data": None},
                                                   {"name": "sig_acc", "type": "normsys", "data": {"hi": hi, "lo": lo}}]},
        {"name": "bkg", "data": bkg, "modifiers": [{"name": "bkg_norm", "type": "normfactor", "data": None},
                                                   {"name": "bkg_shape", "type": "shapesys", "data": unc}]}]}],
        "parameters": []}
    main = []
    for s_, b in zip(sig, bkg):
        e = b + s_ * draw(st.sampled_from([0.0, 0.5, 1.0, 1.5]))
        w = 2.0 * math.sqrt(e)
        main.append(float(max(0, round(e + draw(nice_float(-w, w))))))
    return {"family": "K", "spec": spec, "mu": draw(nice_float(0.0, 3.0)), "main": {"ch": main}}


@st.composite
def strategy_(draw, shard):
    case = draw(st.one_of(family_case(), family_b(), general_case(), general_case(), correlated_case()))
    case["call"] = draw(st.sampled_from(["fit", "fit", "fixed_poi_fit"]))
    case["backend"], case["optimizer"] = shard["backend"], shard["optimizer"]
    case["fix_seed"] = [draw(st.integers(0, 5)) for _ in range(12)]
    case["init_shift"] = [draw(st.sampled_from([0.0, 0.0, 0.1, -0.1, 0.3])) for _ in range(12)]
    return case


def strategy(shard):
    return strategy_(shard)


EDM_GOAL = 2e-4  # 0.002 * tolerance(0.1) * errordef(1)
EDM_MARGIN = 2.5


def _hesse_edm(nll2, x, free, bounds):
    """EDM reported by a stand-alone HESSE at x over the free parameters; None if HESSE itself is unhealthy."""
    import numpy as np
    from iminuit import Minuit

    def f(z):
        y = list(x)
        for i, zi in zip(free, z):
            y[i] = float(zi)
        v = nll2(y)
        return v if v == v and math.isfinite(v) else 1e300

    # MINUIT's bound transformation flattens the objective at a limit: its EDM there is not comparable
    if any(min(x[i] - bounds[i][0], bounds[i][1] - x[i]) < 1e-3 * (bounds[i][1] - bounds[i][0]) for i in free):
        return None
    try:
        m = Minuit(f, np.array([x[i] for i in free], dtype=float))
        m.errordef = 1
        m.limits = [bounds[i] for i in free]
        m.strategy = 2
        m.tol = 0.1
        m.print_level = 0
        m.hesse()
        fm = m.fmin
        if any(abs(float(a) - x[i]) > 1e-9 * (1 + abs(x[i])) for a, i in zip(m.values, free)):
            return None
        if fm.hesse_failed or not fm.has_posdef_covar or fm.has_made_posdef_covar or not fm.has_accurate_covar:
            return None
        return float(fm.edm)
    except Exception:  # noqa: BLE001 - diagnostic aid only
        return None


def run_case(case, ctx):
    import pyhf

    if case["family"] == "B":
        spec, fam = spec_b(case), None
    elif case["family"] == "K":
        spec, fam = case["spec"], None
    else:
        spec, fam = build(case)
    ref = RefModel(spec)
    tl = backends.use(case["backend"], optimizer=case["optimizer"])
    try:
        model = pyhf.Model(spec, poi_name="mu")
        cfg = model.config
        if case["family"] in ("A", "B"):
            main, k = {}, 0
            for c in cfg.channels:
                main[c] = case["data"][k:k + cfg.channel_nbins[c]]
                k += cfg.channel_nbins[c]
            aux = ref.nominal_aux()
            data = list(case["data"]) + list(cfg.auxdata)
        elif case["family"] == "C":
            main = {"singlechannel": [case["data"][0]]}
            aux = {"uncorr_bkguncrt": [case["data"][1]]}
            data = list(case["data"])
        else:
            main, aux = case["main"], ref.nominal_aux()
            data = [v for c in cfg.channels for v in main[c]] + list(cfg.auxdata)
        bounds = [tuple(map(float, b)) for b in cfg.suggested_bounds()]
        init = [float(v) for v in cfg.suggested_init()]
        fixed = [bool(v) for v in cfg.suggested_fixed()]
        # generated init shifts and fixed mask (never the POI, never everything); closed-form families keep defaults
        if case["family"] == "G":
            for i in range(cfg.npars):
                v = init[i] + case["init_shift"][i % 12] * (bounds[i][1] - bounds[i][0]) * 0.1
                init[i] = min(max(v, bounds[i][0]), bounds[i][1])
                if i != cfg.poi_index and case["fix_seed"][i % 12] == 0:
                    fixed[i] = True
            if all(fixed[i] for i in range(cfg.npars) if i != cfg.poi_index) and cfg.npars > 1:
                j = [i for i in range(cfg.npars) if i != cfg.poi_index][0]
                fixed[j] = bool(cfg.suggested_fixed()[j])
        mu = case["mu"]
        is_fp = case["call"] == "fixed_poi_fit"
        pi = cfg.poi_index
        sig = f"C05/{case['call']}/{case['optimizer']}/{case['backend']}"
        ad = case["backend"] != "numpy"
        configs = [(st_, g, None) for st_ in (False, True) for g in ((False, True) if ad else (False,))]
        if case["optimizer"] == "minuit" and not ad:
            # MIGRAD strategy 0 is what pyhf selects with gradients; requested explicitly it is reachable on numpy
            configs += [(False, False, 0), (True, False, 0)]
        tol_opt = 2e-4 if case["optimizer"] == "scipy" else 2e-3

        def nll2(vec):
            m, c, _ = ref.logpdf_parts(flat_to_pars(cfg, vec), main, aux)
            return -2.0 * (m + c)

        def early_stop(do_stitch, do_grad, target):
            """True if the same fit at tight tolerance (SLSQP 1e-10 / MIGRAD 1e-5) reaches `target`."""
            tight = (pyhf.optimize.scipy_optimizer(tolerance=1e-10) if case["optimizer"] == "scipy"
                     else pyhf.optimize.minuit_optimizer(tolerance=1e-5, strategy=2))
            backends.use(case["backend"], optimizer=tight)
            try:
                if is_fp:
                    r2 = pyhf.infer.mle.fixed_poi_fit(mu, data, model, list(init), bounds, list(fixed),
                                                      return_fitted_val=True, do_stitch=do_stitch, do_grad=do_grad)
                else:
                    r2 = pyhf.infer.mle.fit(data, model, list(init), bounds, list(fixed), return_fitted_val=True,
                                            do_stitch=do_stitch, do_grad=do_grad)
                return float(backends.tonp(r2[1])) <= target + tol_opt
            except Exception:  # noqa: BLE001
                return False
            finally:
                backends.use(case["backend"], optimizer=case["optimizer"])

        EARLY = f"C05/optimizer_limitation/early_stop_at_default_tolerance/{case['optimizer']}"
        LOCAL = "C05/optimizer_limitation/local_minimum_of_multimodal_likelihood"
        xs = {}

        def is_local_min(x, val, eff_fixed):
            """no feasible point within 1% of the range improves the objective by more than tol_opt/10"""
            import random

            rng = random.Random(12345)
            free = [i for i in range(cfg.npars) if not eff_fixed[i]]
            for _ in range(60):
                y = list(x)
                for i in free:
                    lo, hi = bounds[i]
                    y[i] = min(max(x[i] + (hi - lo) * 10 ** rng.uniform(-6, -2) * rng.choice([-1, 1]), lo), hi)
                fy = nll2(y)
                if fy == fy and fy < val - tol_opt / 10:
                    return False
            return True

        LIMIT = "C05/optimizer_limitation/minuit_stuck_near_parameter_limit"

        def stuck_at_limit(x, val, eff_fixed):
            """MINUIT only: a free parameter sits within 1% of the range of one of its limits (where MINUIT's internal
            sine transformation flattens the objective, so MIGRAD sees a vanishing gradient and HESSE a large
            error) although moving it inwards lowers the objective"""
            if case["optimizer"] != "minuit":
                return False
            for i in range(cfg.npars):
                if eff_fixed[i]:
                    continue
                lo, hi = bounds[i]
                if min(x[i] - lo, hi - x[i]) > 1e-2 * (hi - lo):
                    continue
                sgn = 1.0 if x[i] - lo < hi - x[i] else -1.0
                for frac in (1e-3, 1e-2, 0.1, 0.3):
                    y = list(x)
                    y[i] = x[i] + sgn * frac * (hi - lo)
                    fy = nll2(y)
                    if fy == fy and fy < val - tol_opt / 10:
                        return True
            return False

        edm_of = {}

        def classify(default_name, do_stitch, do_grad, target, x, val, eff_fixed):
            if early_stop(do_stitch, do_grad, target):
                return EARLY
            if is_local_min(x, val, eff_fixed):
                return LOCAL
            if stuck_at_limit(x, val, eff_fixed):
                return LIMIT
            return default_name
        results = {}
        cfg_of = {}
        for do_stitch, do_grad, strat in configs:
            kw = dict(return_fitted_val=True, do_stitch=do_stitch, do_grad=do_grad)
            if strat is not None:
                kw["strategy"] = strat
            if case["optimizer"] == "minuit":
                kw["return_uncertainties"] = True
                kw["return_result_obj"] = True
            tag = f"stitch{int(do_stitch)}_grad{int(do_grad)}" + ("" if strat is None else f"_strategy{strat}")
            all_fixed = all(f or (is_fp and i == pi) for i, f in enumerate(fixed))
            if do_stitch and all_fixed:
                # recorded known finding: stitching out every parameter leaves the optimiser without variables
                if not case.get("keep_known"):
                    ctx.excluded("do_stitch=True with every parameter fixed")
                    continue
                try:
                    pyhf.infer.mle.fixed_poi_fit(mu, data, model, list(init), bounds, list(fixed), **kw)
                except pyhf.exceptions.FailedMinimization:
                    pass
                except Exception as exc:  # noqa: BLE001
                    ctx.fail(f"C05/all_parameters_fixed_and_stitched/{case['optimizer']}/raises_{type(exc).__name__}",
                             message=str(exc)[:200])
                continue
            try:
                if is_fp:
                    r = pyhf.infer.mle.fixed_poi_fit(mu, data, model, list(init), bounds, list(fixed), **kw)
                else:
                    r = pyhf.infer.mle.fit(data, model, list(init), bounds, list(fixed), **kw)
            except pyhf.exceptions.FailedMinimization:
                if fam is not None or case["family"] == "B":
                    opt_pt = None
                    if case["family"] == "B" and not is_fp:
                        opt_pt = [min(max((ni - bi) / si, 0.0), 10.0) for si, bi, ni in zip(case["s"], case["b"], case["data"])]
                    elif fam is not None:
                        pt, _ = fam.conditional(mu, case["data"]) if is_fp else fam.unconditional(case["data"])
                        opt_pt = list(pt) if pt is not None else None
                    near = opt_pt is not None and len(opt_pt) == cfg.npars and any(
                        min(opt_pt[i] - bounds[i][0], bounds[i][1] - opt_pt[i]) <= 1e-2 * (bounds[i][1] - bounds[i][0])
                        for i in range(cfg.npars) if not (fixed[i] or (is_fp and i == pi)))
                    if case["optimizer"] == "minuit" and near:
                        # MIGRAD/HESSE declare the minimum invalid (EDM above 10 x goal) when the optimum sits next to
                        # a parameter limit: same root cause as the stuck-near-limit class, honest failure
                        ctx.fail("C05/optimizer_limitation/minuit_fails_with_optimum_near_parameter_limit",
                                 optimum=opt_pt, config=tag, family=case["family"])
                    else:
                        ctx.fail(f"{sig}/FailedMinimization_on_closed_form_family/{case['family']}/{tag}")
                else:
                    ctx.label("FailedMinimization")
                continue
            except Exception as exc:  # noqa: BLE001
                from vlib.ctx import innermost_pyhf_frame

                w = innermost_pyhf_frame(exc)
                if w is None:
                    raise
                ctx.fail(f"{sig}/raises/{type(exc).__name__}@{w[0]}:{w[1]}/{tag}", message=str(exc)[:200])
                continue
            want_len = 3 if case["optimizer"] == "minuit" else 2
            if not (isinstance(r, tuple) and len(r) == want_len):
                ctx.fail(f"{sig}/return_layout/{tag}", got=(len(r) if isinstance(r, tuple) else type(r).__name__),
                         want=want_len)
                continue
            if case["optimizer"] == "minuit":
                pars_t, val, res_obj = r
                # the success flag must be backed by MINUIT's own final state (after the HESSE call pyhf makes)
                m_ = getattr(res_obj, "minuit", None)
                if m_ is not None:
                    ctx.count("minuit_final_state_inspected", 1)
                    if not bool(m_.valid):
                        ctx.fail(f"C05/minuit_reports_success_although_its_final_state_is_invalid/{tag}",
                                 edm=float(m_.fmin.edm), edm_goal=float(m_.fmin.edm_goal),
                                 above_max_edm=bool(m_.fmin.is_above_max_edm), reported=float(backends.tonp(val)))
                else:
                    ctx.fail(f"C05/minuit_result_object_without_minuit_state/{tag}")
            else:
                pars_t, val = r
            arr = backends.tonp(pars_t).astype(float)
            if case["optimizer"] == "minuit":
                if arr.ndim != 2 or arr.shape[1] != 2:
                    ctx.fail(f"{sig}/uncertainties_layout", shape=list(arr.shape))
                    continue
                unc = arr[:, 1].tolist()
                x = arr[:, 0].tolist()
            else:
                unc, x = None, arr.tolist()
            val = float(backends.tonp(val))
            results[tag] = val
            cfg_of[tag] = (do_stitch, do_grad)
            eff_fixed = list(fixed)
            want_fixed = list(init)
            if is_fp:
                eff_fixed[pi], want_fixed[pi] = True, mu
            xs[tag] = (list(x), list(eff_fixed))
            for i, v in enumerate(x):
                lo, hi = bounds[i]
                if not (lo - 1e-12 * (1 + abs(lo)) <= v <= hi + 1e-12 * (1 + abs(hi))):
                    ctx.fail(f"{sig}/outside_bounds/{tag}", index=i, value=v, bounds=[lo, hi])
                if eff_fixed[i]:
                    exact = do_stitch or case["optimizer"] == "minuit"
                    slack = 0.0 if exact else 1e-10 * max(1.0, abs(want_fixed[i]))
                    if abs(v - want_fixed[i]) > slack:
                        ctx.fail(f"{sig}/fixed_parameter_moved/{tag}/{'poi' if (is_fp and i == pi) else 'nuisance'}",
                                 index=i, got=v, want=want_fixed[i])
                    if unc is not None and unc[i] != 0.0:
                        ctx.fail(f"{sig}/fixed_parameter_has_uncertainty/{tag}", index=i, unc=unc[i])
            f_ref = nll2(x)
            if math.isfinite(f_ref):
                ctx.close("objective", val, f_ref, 1e-9 * (1 + abs(f_ref)), f"{sig}/reported_objective_ne_2nll/{tag}")
            f_pyhf = float(backends.tonp(pyhf.infer.mle.twice_nll(tl.astensor(x), tl.astensor(data), model))[0])
            ctx.close("objective_twice_nll", val, f_pyhf, 1e-9 * (1 + abs(f_pyhf)), f"{sig}/reported_objective_ne_twice_nll/{tag}")
            # optimality (one-sided): sampled feasible points and perturbations
            best_other, arg = math.inf, None
            free = [i for i in range(cfg.npars) if not eff_fixed[i]]
            import random

            rng = random.Random(hash((tuple(case["fix_seed"]), tag)) & 0xFFFF)
            for t in range(60):
                y = list(x)
                for i in free:
                    lo, hi = bounds[i]
                    if t < 30:
                        stp = (hi - lo) * 10 ** rng.uniform(-5, -1.3) * rng.choice([-1, 1])
                        y[i] = min(max(x[i] + stp, lo), hi)
                    else:
                        c0 = init[i]
                        y[i] = min(max(c0 + (rng.random() - 0.5) * 0.6 * min(hi - lo, 4.0), lo), hi)
                fy = nll2(y)
                if fy == fy and fy < best_other:
                    best_other, arg = fy, y
            # independent polish: L-BFGS-B on the *reference* objective over the free parameters, started at
            # the returned point (an optimiser that shares nothing with SLSQP / MIGRAD)
            if free and math.isfinite(f_ref):
                from scipy.optimize import minimize as _minimize

                def _obj(z):
                    y = list(x)
                    for i, zi in zip(free, z):
                        y[i] = float(zi)
                    v = nll2(y)
                    return v if v == v and math.isfinite(v) else 1e300

                try:
                    pol = _minimize(_obj, [x[i] for i in free], method="L-BFGS-B",
                                    bounds=[bounds[i] for i in free], options={"maxiter": 60, "maxfun": 400})
                    if pol.fun < best_other:
                        y = list(x)
                        for i, zi in zip(free, pol.x):
                            y[i] = float(min(max(zi, bounds[i][0]), bounds[i][1]))
                        fy = nll2(y)
                        if fy == fy and fy < best_other:
                            best_other, arg = fy, y
                except Exception:  # noqa: BLE001 - the polish is an aid, never a verdict
                    pass
            # MIGRAD's convergence measure evaluated independently (HESSE, strategy 2, on the reference objective at
            # the returned point): recorded as a metric only - with nearly degenerate directions the EDM of an
            # accurate Hessian exceeds MINUIT's own strategy-0/1 estimate by large factors on the unchanged tree
            edm_of[tag] = None
            if case["optimizer"] == "minuit" and free and math.isfinite(f_ref):
                edm_of[tag] = _hesse_edm(nll2, x, free, bounds)
                if edm_of[tag] is not None:
                    ctx.err("minuit_edm_over_limit", edm_of[tag] / (EDM_MARGIN * 10 * EDM_GOAL))
                    ctx.count("minuit_success_points_checked_with_independent_hesse", 1)
            if best_other < val - tol_opt:
                name = classify(f"{sig}/better_feasible_point_exists/{case['family']}/{tag}", do_stitch, do_grad,
                                best_other, x, val, eff_fixed)
                ctx.fail(name, reported=val, better=best_other, gap=val - best_other, point=arg, config=tag)
            ctx.err("optimality_gap", max(0.0, (val - best_other) / tol_opt) if math.isfinite(best_other) else 0.0)
            # closed form
            want = None
            if fam is not None and not any(fixed):
                fdata = case["data"]
                if is_fp:
                    pc, vc = fam.conditional(mu, fdata)
                    want = 2 * vc if pc is not None else None
                else:
                    pu, vu = fam.unconditional(fdata)
                    want = 2 * vu if pu is not None else None
            elif case["family"] == "B" and not is_fp:
                tot = 0.0
                for si, bi, ni in zip(case["s"], case["b"], case["data"]):
                    m = min(max((ni - bi) / si, 0.0), 10.0)
                    tot += refstats.pois_nll(ni, m * si + bi)
                want = 2 * tot
            if want is not None and math.isfinite(want):
                gap = val - want
                ctx.err("closed_form_gap", max(0.0, gap / tol_opt))
                if gap > tol_opt:
                    name = classify(f"{sig}/objective_above_closed_form_optimum/{case['family']}/{tag}", do_stitch,
                                    do_grad, want, x, val, eff_fixed)
                    ctx.fail(name, reported=val, closed_form=want, gap=gap, config=tag)
                if gap < -1e-6 * (1 + abs(want)):
                    ctx.fail(f"{sig}/objective_below_closed_form_optimum/{case['family']}/{tag}", reported=val,
                             closed_form=want)
        if len(results) >= 2:
            lo_v, hi_v = min(results.values()), max(results.values())
            if hi_v - lo_v > tol_opt:
                worst = max(results, key=results.get)
                name = classify(f"{sig}/configuration_dependence/{case['family']}/{worst}", *cfg_of[worst], lo_v,
                                xs[worst][0], results[worst], xs[worst][1])
                ctx.fail(name, objectives=results, config=worst)
        nfree_nuis = sum(1 for i in range(cfg.npars) if i != pi and not fixed[i])
        ctx.label(f"family={case['family']}", f"call={case['call']}", f"optimizer={case['optimizer']}",
                  f"backend={case['backend']}", f"configs={len(configs)}")
        if any(fixed):
            ctx.label("nonempty_fixed_mask")
        if nfree_nuis or any(fixed):
            shape = case["family"] if case["family"] != "G" else [
                (c["name"], len(c["samples"]), len(c["samples"][0]["data"])) for c in spec["channels"]]
            ctx.nontrivial([shape, fixed, data, case["call"], case["optimizer"], case["backend"]])
    finally:
        backends.reset()

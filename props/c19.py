"""C19 - the command line returns what the library returns."""
import copy
import json
import math
import os
import shutil
import tempfile

from hypothesis import strategies as st

from props.c17 import canon_digest, ops as patch_ops
from vlib import backends, gen_spec, jsonpatch_ref
from vlib.refmodel import RefModel

ID = "C19"
LEVEL = "exploration"
RULE = (
    "Hypothesis-generated workspaces (1-3 measurements, well-posed small models), JSON patches and patch "
    "sets x one subcommand per case from {cls, fit, inspect, prune, rename, combine, sort, digest, patchset "
    "extract/apply/verify/inspect, json2xml+xml2json} x generated option combinations (measurement, "
    "patches, test POI, test statistic, backend, optimizer and its settings, join mode, merge flag, "
    "algorithms, selections) x input by file or stdin x output by file or stdout, driven in-process through "
    "click's CliRunner. Oracle: the corresponding library call written independently in the check (exit "
    "status 0 iff it succeeds; emitted JSON/text carries the same values); file output == stdout output. "
    "Non-trivial: >=2 non-default options crossed, a non-first measurement, or patches present; distinct by "
    "(subcommand, option set, hash of inputs)."
)
ASSUMPTIONS = [
    "in-process CliRunner only (no real subprocess); the backend is reset before and after every invocation",
    "inspect --measurement is undocumented and unused upstream: only the default behaviour is compared",
    "numeric outputs compared at 1e-9 relative (identical computations)",
]
CMDS = ["cls", "cls", "fit", "fit", "inspect", "prune", "rename", "combine", "sort", "digest",
        "patchset_extract", "patchset_apply", "patchset_verify", "patchset_inspect", "xmlio"]


def shards(tier):
    q = tier == "quick"
    return [{"name": f"cli{i}", "examples": 110 if q else 900} for i in range(16)]


@st.composite
def strategy_(draw, shard):
    W = draw(gen_spec.workspaces(max_channels=2, max_bins=2, max_samples=3, max_measurements=3, wellposed=True,
                                 overrides=False, force_poi=True,
                                 kinds=("normfactor", "normsys", "histosys", "shapesys", "staterror", "lumi")))
    cmd = draw(st.sampled_from(CMDS))
    nm = len(W["measurements"])
    case = {"W": W, "cmd": cmd, "stdin": draw(st.booleans()), "to_file": draw(st.booleans()),
            "measurement": draw(st.sampled_from([None] + [m["name"] for m in W["measurements"]])),
            "patch": draw(patch_ops(W)) if draw(st.booleans()) else None}
    if cmd in ("cls", "fit"):
        case.update(test_poi=draw(st.sampled_from([1.0, 0.5, 2.0, 1.5])), test_stat=draw(st.sampled_from(["qtilde", "q"])),
                    backend=draw(st.sampled_from(["numpy", "numpy", "numpy", "pytorch", "np", "torch"])),
                    optimizer=draw(st.sampled_from(["scipy", "scipy", "minuit"])),
                    optconf=draw(st.sampled_from([[], [], ["tolerance=0.001"], ["maxiter=5000"], ["tolerance=0.001", "maxiter=6000"]])),
                    value=draw(st.booleans()))
    names = [c["name"] for c in W["channels"]]
    samples = sorted({s["name"] for c in W["channels"] for s in c["samples"]})
    mods = sorted({m["name"] for c in W["channels"] for s in c["samples"] for m in s["modifiers"]})
    mtypes = sorted({m["type"] for c in W["channels"] for s in c["samples"] for m in s["modifiers"]})
    if cmd == "prune":
        case["sel"] = {"channel": draw(st.lists(st.sampled_from(names), max_size=1, unique=True)) if len(names) > 1 else [],
                       "sample": draw(st.lists(st.sampled_from(samples), max_size=1, unique=True)),
                       "modifier": draw(st.lists(st.sampled_from(mods), max_size=2, unique=True)),
                       "modifier_type": draw(st.lists(st.sampled_from(mtypes), max_size=1, unique=True)),
                       "measurement": draw(st.lists(st.sampled_from([m["name"] for m in W["measurements"]]), max_size=1, unique=True)) if nm > 1 else []}
        if draw(st.integers(0, 6)) == 0:
            case["sel"]["sample"] = ["no_such_sample"]
    if cmd == "rename":
        rm = [m for m in mods if m != "lumi"]
        case["sel"] = {"channel": [[n, "r_" + n] for n in draw(st.lists(st.sampled_from(names), max_size=2, unique=True))],
                       "sample": [[n, "s_" + n] for n in draw(st.lists(st.sampled_from(samples), max_size=2, unique=True))],
                       "modifier": [[n, "m_" + n] for n in draw(st.lists(st.sampled_from(rm), max_size=2, unique=True))] if rm else [],
                       "measurement": [[W["measurements"][0]["name"], "renamed"]] if draw(st.booleans()) else []}
    if cmd == "combine":
        case["join"] = draw(st.sampled_from(["none", "outer", "left outer", "right outer"]))
        case["merge"] = draw(st.booleans())
        case["overlap"] = draw(st.sampled_from(["disjoint", "identical", "conflict"]))
    if cmd == "digest":
        case["algorithms"] = draw(st.sampled_from([[], ["md5"], ["sha256", "md5"], ["sha1"], ["md5", "sha512"]]))
        case["json_out"] = draw(st.sampled_from([None, True, False]))
    if cmd == "xmlio":
        case["specroot"] = draw(st.sampled_from([None, None, "cfg", "xml_spec"]))
        case["dataroot"] = draw(st.sampled_from([None, None, "rootfiles"]))
        case["resultprefix"] = draw(st.sampled_from([None, None, "MyFit"]))
    if cmd.startswith("patchset"):
        n = draw(st.integers(1, 3))
        case["patches"] = [{"metadata": {"name": f"p{i}_{draw(st.sampled_from(['a', 'name', 'values']))}", "values": [i, draw(st.sampled_from([1.0, 2.5, 'x']))]},
                            "patch": draw(patch_ops(W))} for i in range(n)]
        case["pick"] = draw(st.integers(0, n - 1))
        case["with_metadata"] = draw(st.booleans())
        case["good_digest"] = draw(st.sampled_from([True, True, False]))
    return case


def strategy(shard):
    return strategy_(shard)


def _eq_num(a, b, rel=1e-9):
    if isinstance(a, (list, tuple)) and isinstance(b, (list, tuple)):
        return len(a) == len(b) and all(_eq_num(x, y, rel) for x, y in zip(a, b))
    if isinstance(a, dict) and isinstance(b, dict):
        return sorted(a) == sorted(b) and all(_eq_num(a[k], b[k], rel) for k in a)
    if isinstance(a, (int, float)) and isinstance(b, (int, float)) and not isinstance(a, bool):
        if math.isnan(a) or math.isnan(b):
            return math.isnan(a) and math.isnan(b)
        return abs(a - b) <= rel * (1 + abs(a) + abs(b))
    return a == b


class Run:
    def __init__(self, tmp):
        from click.testing import CliRunner

        self.runner = CliRunner()
        self.tmp = tmp

    def write(self, name, obj):
        p = os.path.join(self.tmp, name)
        with open(p, "w") as fh:
            json.dump(obj, fh)
        return p

    def invoke(self, args, stdin_obj=None):
        from pyhf.cli.cli import pyhf as pyhf_main

        backends.reset()
        try:
            r = self.runner.invoke(pyhf_main, args, input=json.dumps(stdin_obj) if stdin_obj is not None else None)
        finally:
            backends.reset()
        return r


def out_json(run, ctx, sig, base_args, ws_arg_pos, case, stdin_ok=True, parse=True):
    """Run the command with output to stdout and to a file; both must agree. Returns (exit_code, value)."""
    args = list(base_args)
    stdin_obj = None
    if case["stdin"] and stdin_ok:
        stdin_obj = json.load(open(args[ws_arg_pos]))
        args[ws_arg_pos] = "-"
    r1 = run.invoke(args, stdin_obj)
    outp = os.path.join(run.tmp, "out.json")
    if os.path.exists(outp):
        os.remove(outp)
    r2 = run.invoke(args + ["--output-file", outp], stdin_obj)
    if (r1.exit_code == 0) != (r2.exit_code == 0):
        ctx.fail(f"{sig}/exit_status_differs_between_stdout_and_file", stdout=r1.exit_code, file=r2.exit_code)
    if r1.exit_code != 0:
        return r1.exit_code, None, r1
    try:
        v1 = json.loads(r1.output) if parse else r1.output
        v2 = json.load(open(outp))
    except Exception as exc:  # noqa: BLE001
        ctx.fail(f"{sig}/output_not_json", message=str(exc)[:200], output=r1.output[:200])
        return 0, None, r1
    if parse and not _eq_num(v1, v2):
        ctx.fail(f"{sig}/file_output_differs_from_stdout")
    return 0, (v1 if (parse and not case["to_file"]) else v2), r1


def run_case(case, ctx):
    import pyhf
    import pyhf.readxml
    import pyhf.writexml

    W = case["W"]
    cmd = case["cmd"]
    tmp = tempfile.mkdtemp(prefix="pyhf_c19_")
    run = Run(tmp)
    sig = f"C19/{cmd}"
    nopts = 0
    try:
        wsf = run.write("ws.json", W)
        patch = case.get("patch") or None
        pf = run.write("patch.json", patch) if patch else None
        meas = case["measurement"]
        if cmd in ("cls", "fit"):
            args = [cmd, wsf]
            if meas:
                args += ["--measurement", meas]
            if pf:
                args += ["-p", pf]
            if cmd == "cls":
                args += ["--test-poi", str(case["test_poi"]), "--test-stat", case["test_stat"]]
            elif case["value"]:
                args += ["--value"]
            args += ["--backend", case["backend"], "--optimizer", case["optimizer"]]
            for oc in case["optconf"]:
                args += ["--optconf", oc]
            nopts = sum([bool(meas), bool(pf), case["backend"] != "numpy", case["optimizer"] != "scipy", bool(case["optconf"]),
                         cmd == "cls" and case["test_poi"] != 1.0, cmd == "cls" and case["test_stat"] != "qtilde",
                         cmd == "fit" and case["value"]])
            code, got, r = out_json(run, ctx, sig, args, 1, case)
            # library
            lib_ok, want = True, None
            try:
                be = {"np": "numpy", "numpy": "numpy", "pytorch": "pytorch", "torch": "pytorch"}[case["backend"]]
                conf = {}
                for oc in case["optconf"]:
                    k, v = oc.split("=")
                    conf[k] = float(v) if "e" in v or "." in v else int(v)
                opt = getattr(pyhf.optimize, f"{case['optimizer']}_optimizer")(**conf)
                ws = pyhf.Workspace(copy.deepcopy(W))
                model = ws.model(measurement_name=meas, patches=[patch] if patch else [])
                backends.use(be, optimizer=opt)
                data = ws.data(model)
                if cmd == "cls":
                    res = pyhf.infer.hypotest(case["test_poi"], data, model, test_stat=case["test_stat"], return_expected_set=True)
                    want = {"CLs_obs": float(backends.tonp(res[0])), "CLs_exp": [float(backends.tonp(v)) for v in res[1]]}
                else:
                    fr = pyhf.infer.mle.fit(data, model, return_fitted_val=True)
                    pars = backends.tonp(fr[0]).astype(float)
                    want = {"mle_parameters": {n: pars[model.config.par_slice(n)].tolist() for n in model.config.par_order}}
                    if case["value"]:
                        want["twice_nll"] = float(backends.tonp(fr[1]))
            except Exception as exc:  # noqa: BLE001
                lib_ok, lib_exc = False, exc
            finally:
                backends.reset()
            if lib_ok != (code == 0):
                ctx.fail(f"{sig}/exit_status_vs_library", cli_exit=code, library_ok=lib_ok,
                         cli_exception=repr(r.exception)[:200], library_exception=None if lib_ok else repr(lib_exc)[:200])
            elif lib_ok and got is not None:
                if sorted(got) != sorted(want):
                    ctx.fail(f"{sig}/output_keys", got=sorted(got), want=sorted(want))
                else:
                    for k in want:
                        if not _eq_num(got[k], want[k], 1e-7):
                            which = [o for o, on in (("measurement", bool(meas)), ("patch", bool(pf)), ("optimizer", case["optimizer"] != "scipy"),
                                                     ("optconf", bool(case["optconf"])), ("backend", case["backend"] != "numpy")) if on]
                            ctx.fail(f"{sig}/value_differs_from_library/{k}", got=got[k], want=want[k], options=which,
                                     test_poi=case.get("test_poi"), test_stat=case.get("test_stat"))
        elif cmd == "inspect":
            code, got, r = out_json(run, ctx, sig, ["inspect", wsf], 1, dict(case, to_file=True), parse=False)
            if code != 0:
                ctx.fail(f"{sig}/fails_on_valid_workspace", exception=repr(r.exception)[:200])
            elif got is not None:
                ref = RefModel(gen_spec.model_spec_of(W, 0))
                want_par = sorted([n, {"normal": "constrained_by_normal", "poisson": "constrained_by_poisson", None: "unconstrained"}[p.constraint]]
                                  for n, p in ref.params.items())
                if sorted(map(list, got["parameters"])) != want_par:
                    ctx.fail(f"{sig}/parameters", got=got["parameters"], want=want_par)
                if got["samples"] != sorted({s["name"] for c in W["channels"] for s in c["samples"]}):
                    ctx.fail(f"{sig}/samples", got=got["samples"])
                want_ch = sorted([c["name"], len(c["samples"][0]["data"])] for c in W["channels"])
                if sorted(map(list, got["channels"])) != want_ch:
                    ctx.fail(f"{sig}/channels", got=got["channels"], want=want_ch)
                want_m = [[m["name"], m["config"]["poi"], [p["name"] for p in m["config"]["parameters"]]] for m in W["measurements"]]
                if [list(m[:2]) + [list(m[2])] for m in got["measurements"]] != want_m:
                    ctx.fail(f"{sig}/measurements", got=got["measurements"], want=want_m)
                types = {}
                for c in W["channels"]:
                    for s in c["samples"]:
                        for m in s["modifiers"]:
                            types.setdefault(m["name"], set()).add(m["type"])
                if sorted(got["modifiers"]) != sorted(types) or any(got["modifiers"][n] not in types[n] for n in types):
                    ctx.fail(f"{sig}/modifiers", got=got["modifiers"])
                # the text summary names the default (first) measurement
                if f"(*) {W['measurements'][0]['name']}" not in r.output:
                    ctx.fail(f"{sig}/default_measurement_not_marked")
        elif cmd in ("prune", "rename", "sort"):
            args = [cmd, wsf]
            ws = pyhf.Workspace(copy.deepcopy(W))
            try:
                if cmd == "prune":
                    sel = case["sel"]
                    for k, flag in (("channel", "-c"), ("sample", "-s"), ("modifier", "-m"), ("modifier_type", "-t"), ("measurement", "--measurement")):
                        for v in sel[k]:
                            args += [flag, v]
                    nopts = sum(bool(v) for v in sel.values())
                    want = dict(ws.prune(channels=sel["channel"], samples=sel["sample"], modifiers=sel["modifier"],
                                         modifier_types=sel["modifier_type"], measurements=sel["measurement"]))
                elif cmd == "rename":
                    sel = case["sel"]
                    for k, flag in (("channel", "-c"), ("sample", "-s"), ("modifier", "-m"), ("measurement", "--measurement")):
                        for a, b in sel[k]:
                            args += [flag, a, b]
                    nopts = sum(bool(v) for v in sel.values())
                    want = dict(ws.rename(channels=dict(sel["channel"]), samples=dict(sel["sample"]),
                                          modifiers=dict(sel["modifier"]), measurements=dict(sel["measurement"])))
                else:
                    want = dict(pyhf.Workspace.sorted(ws))
                lib_ok = True
            except Exception as exc:  # noqa: BLE001
                lib_ok, want, lib_exc = False, None, exc
            code, got, r = out_json(run, ctx, sig, args, 1, case)
            if lib_ok != (code == 0):
                ctx.fail(f"{sig}/exit_status_vs_library", cli_exit=code, library_ok=lib_ok, cli_exception=repr(r.exception)[:200])
            elif lib_ok and got is not None and got != want:
                ctx.fail(f"{sig}/output_differs_from_library", selection=case.get("sel"))
        elif cmd == "combine":
            A = copy.deepcopy(W)
            B = copy.deepcopy(W)
            for c in B["channels"]:
                c["name"] = "B_" + c["name"]
                for s in c["samples"]:
                    for m in s["modifiers"]:
                        if m["type"] in ("shapesys", "staterror"):
                            m["name"] = "B_" + m["name"]
            for o in B["observations"]:
                o["name"] = "B_" + o["name"]
            if case["overlap"] != "disjoint":
                c0, o0 = copy.deepcopy(A["channels"][0]), copy.deepcopy([o for o in A["observations"] if o["name"] == A["channels"][0]["name"]][0])
                if case["overlap"] == "conflict":
                    c0["samples"][0]["data"] = [v + 1 for v in c0["samples"][0]["data"]]
                B["channels"].append(c0)
                B["observations"].append(o0)
            if case["join"] == "none":
                for m in B["measurements"]:
                    m["name"] = "B_" + m["name"]
            f1, f2 = run.write("a.json", A), run.write("b.json", B)
            args = ["combine", f1, f2, "--join", case["join"]] + (["--merge-channels"] if case["merge"] else ["--no-merge-channels"])
            nopts = (case["join"] != "none") + case["merge"]
            try:
                want = dict(pyhf.Workspace.combine(pyhf.Workspace(A), pyhf.Workspace(B), join=case["join"], merge_channels=case["merge"]))
                lib_ok = True
            except Exception:  # noqa: BLE001
                lib_ok, want = False, None
            code, got, r = out_json(run, ctx, sig, args, 1, dict(case, stdin=False))
            if lib_ok != (code == 0):
                ctx.fail(f"{sig}/exit_status_vs_library/{case['overlap']}/{case['join']}", cli_exit=code, library_ok=lib_ok,
                         cli_exception=repr(r.exception)[:200])
            elif lib_ok and got is not None and got != want:
                ctx.fail(f"{sig}/output_differs_from_library/{case['join']}{'/merge' if case['merge'] else ''}")
        elif cmd == "digest":
            args = ["digest", wsf]
            algs = case["algorithms"]
            for a in algs:
                args += ["-a", a]
            if case["json_out"] is True:
                args += ["--json"]
            elif case["json_out"] is False:
                args += ["--plaintext"]
            nopts = bool(algs) + (case["json_out"] is not None)
            stdin_obj = None
            if case["stdin"]:
                stdin_obj, args[1] = W, "-"
            r = run.invoke(args, stdin_obj)
            use = algs or ["sha256"]
            if r.exit_code != 0:
                ctx.fail(f"{sig}/fails", exception=repr(r.exception)[:200], algorithms=use)
            else:
                want = {a: canon_digest(W, a) for a in use}
                if case["json_out"] is True:
                    try:
                        got = json.loads(r.output)
                    except Exception:  # noqa: BLE001
                        got = None
                    if got != want:
                        ctx.fail(f"{sig}/json_output_differs", got=got, want=want)
                else:
                    lines = [ln for ln in r.output.strip().splitlines() if ln]
                    if lines != [f"{a}:{want[a]}" for a in dict.fromkeys(use)]:
                        ctx.fail(f"{sig}/plaintext_output_differs", got=lines, want=want)
        elif cmd.startswith("patchset"):
            digests = {"sha256": canon_digest(W, "sha256"), "md5": canon_digest(W, "md5")}
            if not case["good_digest"]:
                digests["md5"] = ("0" if digests["md5"][0] != "0" else "1") + digests["md5"][1:]
            doc = {"metadata": {"references": {"hepdata": "ins1234567"}, "description": "generated", "digests": digests,
                                "labels": ["a", "b"]}, "patches": case["patches"], "version": "1.0.0"}
            psf = run.write("ps.json", doc)
            pick = case["patches"][case["pick"]]
            name = pick["metadata"]["name"]
            sub = cmd.split("_")[1]
            if sub == "extract":
                args = ["patchset", "extract", psf, "--name", name] + (["--with-metadata"] if case["with_metadata"] else [])
                code, got, r = out_json(run, ctx, sig, args, 2, case)
                want = pick["patch"]
                if case["with_metadata"]:
                    md = dict(pick["metadata"])
                    md.update(doc["metadata"])
                    want = {"metadata": md, "patch": pick["patch"]}
                if code != 0:
                    ctx.fail(f"{sig}/fails", exception=repr(r.exception)[:200])
                elif got is not None and got != want:
                    ctx.fail(f"{sig}/output_differs{'/with_metadata' if case['with_metadata'] else ''}", got=got, want=want)
            elif sub == "apply":
                args = ["patchset", "apply", wsf, psf, "--name", name]
                code, got, r = out_json(run, ctx, sig, args, 2, dict(case, stdin=False))
                if case["good_digest"]:
                    want = jsonpatch_ref.apply_patch(W, pick["patch"])
                    if code != 0:
                        ctx.fail(f"{sig}/fails", exception=repr(r.exception)[:200])
                    elif got is not None and got != want:
                        ctx.fail(f"{sig}/output_differs_from_reference_applier")
                elif code == 0:
                    ctx.fail(f"{sig}/succeeds_despite_wrong_digest")
            elif sub == "verify":
                r = run.invoke(["patchset", "verify", wsf, psf])
                if (r.exit_code == 0) != case["good_digest"]:
                    ctx.fail(f"{sig}/exit_status", exit=r.exit_code, good_digest=case["good_digest"])
                elif r.exit_code == 0 and "All good." not in r.output:
                    ctx.fail(f"{sig}/message")
            else:
                r = run.invoke(["patchset", "inspect", psf])
                listed = [ln.strip() for ln in r.output.splitlines() if ln.strip() in [p["metadata"]["name"] for p in case["patches"]]]
                if r.exit_code != 0 or listed != [p["metadata"]["name"] for p in case["patches"]]:
                    ctx.fail(f"{sig}/names", exit=r.exit_code, listed=listed)
            nopts = 1 + case["with_metadata"]
        elif cmd == "xmlio":
            outd = os.path.join(tmp, "x")
            os.makedirs(outd)
            args = ["json2xml", wsf, "--output-dir", outd] + (["-p", pf] if pf else [])
            specroot, dataroot, prefix = case.get("specroot"), case.get("dataroot"), case.get("resultprefix")
            if specroot:
                args += ["--specroot", specroot]
            if dataroot:
                args += ["--dataroot", dataroot]
            if prefix:
                args += ["--resultprefix", prefix]
            specroot, dataroot, prefix = specroot or "config", dataroot or "data", prefix or "FitConfig"
            stdin_obj = None
            if case["stdin"]:
                stdin_obj, args[1] = W, "-"
            r = run.invoke(args, stdin_obj)
            src = jsonpatch_ref.apply_patch(W, patch) if patch else W
            # the library round trip decides whether this input is exportable / importable at all
            lib = os.path.join(tmp, "lib")
            os.makedirs(os.path.join(lib, "config"))
            os.makedirs(os.path.join(lib, "data"))
            try:
                xml = pyhf.writexml.writexml(copy.deepcopy(src), os.path.join(lib, "config"), os.path.join(lib, "data"), "FitConfig")
                open(os.path.join(lib, "FitConfig.xml"), "wb").write(xml)
                export_ok = True
            except Exception:  # noqa: BLE001
                export_ok = False
            if export_ok != (r.exit_code == 0):
                ctx.fail(f"{sig}/json2xml_exit_status_vs_library", cli_exit=r.exit_code, library_ok=export_ok,
                         exception=repr(r.exception)[:300])
            elif export_ok:
                try:
                    want = pyhf.readxml.parse(os.path.join(lib, "FitConfig.xml"), lib)
                    import_ok = True
                except Exception:  # noqa: BLE001
                    import_ok, want = False, None
                # every location option must have taken effect
                want_files = [os.path.join(outd, f"{prefix}.xml"), os.path.join(outd, dataroot, "data.root")] + [
                    os.path.join(outd, specroot, f"{prefix}_{c['name']}.xml") for c in src["channels"]]
                missing = [os.path.relpath(f, outd) for f in want_files if not os.path.exists(f)]
                if missing:
                    ctx.fail(f"{sig}/json2xml_output_locations", missing=missing, found=sorted(
                        os.path.relpath(os.path.join(dp, f), outd) for dp, _, fs in os.walk(outd) for f in fs)[:12])
                r2 = run.invoke(["xml2json", os.path.join(outd, f"{prefix}.xml"), "--basedir", outd, "--hide-progress"])
                if import_ok != (r2.exit_code == 0):
                    ctx.fail(f"{sig}/xml2json_exit_status_vs_library", cli_exit=r2.exit_code, library_ok=import_ok,
                             exception=repr(r2.exception)[:300])
                elif import_ok:
                    try:
                        got = json.loads(r2.output)
                    except Exception:  # noqa: BLE001
                        got = None
                    if got != json.loads(json.dumps(want)):
                        ctx.fail(f"{sig}/cli_round_trip_differs_from_library_round_trip", patched=bool(patch))
            nopts = bool(pf) + case["stdin"] + bool(case.get("specroot")) + bool(case.get("dataroot")) + bool(case.get("resultprefix"))
        ctx.label(f"cmd={cmd}", f"stdin={case['stdin']}", f"to_file={case['to_file']}")
        if patch:
            ctx.label("patch_present")
        nonfirst = meas is not None and meas != W["measurements"][0]["name"] and cmd in ("cls", "fit")
        if nonfirst:
            ctx.label("non_first_measurement")
        if nopts >= 2 or nonfirst or (patch and cmd in ("cls", "fit", "xmlio")):
            ctx.nontrivial([cmd, {k: v for k, v in case.items() if k != "W"}, json.dumps(W, sort_keys=True)[:400]])
    finally:
        shutil.rmtree(tmp, ignore_errors=True)
        backends.reset()

"""Driver: shards a property check over fresh subprocesses, merges, shrinks, writes evidence.

exit codes: 0 held (possibly with KNOWN-FINDING lines), 1 VIOLATION, 2 harness error.
"""
import argparse
import concurrent.futures as cf
import hashlib
import importlib
import json
import os
import shutil
import subprocess
import sys
import time

ROOT = os.path.dirname(os.path.dirname(os.path.abspath(__file__)))
PY = sys.executable
WORK = os.path.join(ROOT, ".work")
KNOWN = os.path.join(ROOT, "known_findings.json")


def sig_hash(sig):
    return hashlib.sha1(sig.encode()).hexdigest()[:12]


def load_known(prop):
    if not os.path.exists(KNOWN):
        return []
    with open(KNOWN) as fh:
        doc = json.load(fh)
    return [e for e in doc.get("findings", []) if e.get("property") == prop]


def worker_env():
    env = dict(os.environ)
    env["PYTHONHASHSEED"] = "0"
    pp = [ROOT]
    deps = os.path.join(ROOT, ".deps")
    if os.path.isdir(deps):
        pp.append(deps)
    if env.get("PYTHONPATH"):
        pp.append(env["PYTHONPATH"])
    env["PYTHONPATH"] = os.pathsep.join(pp)
    return env


# a shard that is still running after this long is killed and reported as a harness error (exit 2): a hang in the
# code under test must not hang the check, and it is not a verdict either
HARD_SHARD_TIMEOUT = {"quick": 3600, "thorough": 6 * 3600}


def run_worker(prop, mode, shard, seed, out, extra=(), timeout=None):
    cmd = [
        PY,
        "-m",
        "vlib.worker",
        "--prop",
        prop,
        "--mode",
        mode,
        "--shard",
        json.dumps(shard),
        "--seed",
        str(seed),
        "--out",
        out,
        *extra,
    ]
    if os.path.exists(out):
        os.remove(out)
    t0 = time.time()
    try:
        p = subprocess.run(
            cmd,
            cwd=ROOT,
            env=worker_env(),
            stdout=subprocess.PIPE,
            stderr=subprocess.PIPE,
            timeout=timeout,
            text=True,
        )
        rc, err = p.returncode, p.stderr[-4000:]
    except subprocess.TimeoutExpired as e:
        rc, err = -9, f"worker timeout after {timeout}s: {str(e)[:200]}"
    res = None
    if os.path.exists(out):
        with open(out) as fh:
            res = json.load(fh)
    return {"rc": rc, "stderr": err, "result": res, "wall": time.time() - t0, "shard": shard}


def main(argv=None):
    """Each invocation works in its own scratch directory (.work/<ID>.<pid>) so that runs of the same property
    can overlap; on exit it becomes .work/<ID> (kept for inspection)."""
    holder = {}
    try:
        return _main(argv, holder)
    finally:
        work = holder.get("work")
        if work and os.path.isdir(work):
            final = work.rsplit(".", 1)[0]
            shutil.rmtree(final, ignore_errors=True)
            try:
                os.rename(work, final)
            except OSError:
                shutil.rmtree(work, ignore_errors=True)


def _main(argv, holder):
    ap = argparse.ArgumentParser(prog="check")
    ap.add_argument("prop")
    ap.add_argument("--tier", default=os.environ.get("VERIF_TIER", "quick"), choices=["quick", "thorough"])
    ap.add_argument("--replay", default=None)
    ap.add_argument("--seed", type=int, default=None)
    ap.add_argument("--jobs", type=int, default=int(os.environ.get("VERIF_JOBS", "16")))
    ap.add_argument("--scale", type=float, default=float(os.environ.get("VERIF_SCALE", "1")),
                    help="multiply every shard's case count (debugging)")
    ap.add_argument("--only", default=None, help="run only shards whose name contains this")
    ap.add_argument("--no-evidence", action="store_true")
    a = ap.parse_args(argv)

    prop = a.prop.upper()
    seed = a.seed if a.seed is not None else int(os.environ.get("VERIF_SEED", "1") or 1)
    sys.path.insert(0, ROOT)
    mod = importlib.import_module(f"props.{prop.lower()}")
    work = os.path.join(WORK, f"{prop}.{os.getpid()}")
    holder["work"] = work
    shutil.rmtree(work, ignore_errors=True)
    os.makedirs(work, exist_ok=True)
    t0 = time.time()

    # ---------------------------------------------------------------------------- replay one file
    if a.replay:
        with open(a.replay) as fh:
            doc = json.load(fh)
        shard = doc.get("shard", {}) if isinstance(doc, dict) else {}
        r = run_worker(prop, "replay", shard, seed, os.path.join(work, "replay.json"),
                       extra=["--case", os.path.abspath(a.replay)])
        if r["result"] is None or r["result"].get("harness_errors"):
            print(f"HARNESS-ERROR property={prop} replay failed to run\n{r['stderr']}")
            if r["result"]:
                print(r["result"]["harness_errors"][0]["error"])
            return 2
        fails = r["result"]["failures"]
        for s, d in fails:
            print(f"  failure {s}: {json.dumps(d)[:400]}")
        if fails:
            print(f"VIOLATION property={prop} replay={a.replay}")
            return 1
        print(f"replay of {a.replay}: property {prop} holds on this case")
        return 0

    known = load_known(prop)
    known_sigs = {e["signature"]: e for e in known if e.get("status") == "known"}
    exit_code = 0
    violations = []
    known_lines = []

    # ------------------------------------------------- phase 0: stored replays (known and fixed)
    replay_dir = os.path.join(ROOT, "replays", prop)
    stored = []
    if os.path.isdir(replay_dir):
        stored = sorted(f for f in os.listdir(replay_dir) if f.endswith(".json"))
    stored_results = {}

    def _replay_file(fn):
        path = os.path.join(replay_dir, fn)
        with open(path) as fh:
            doc = json.load(fh)
        shard = doc.get("shard", {}) if isinstance(doc, dict) else {}
        return fn, run_worker(prop, "replay", shard, seed, os.path.join(work, f"replay_{fn}"),
                              extra=["--case", path])

    # ------------------------------------------------------------------- phase 1: collect shards
    shards = mod.shards(a.tier)
    if a.only:
        shards = [s for s in shards if a.only in s["name"]]
    for s in shards:
        if "examples" in s:
            s["examples"] = max(1, int(s["examples"] * a.scale))
        if "runs" in s:
            s["runs"] = max(1, int(s["runs"] * a.scale))
    wall_budget = float(getattr(mod, "WALL_BUDGET", {}).get(a.tier, 0) or 0)
    results = []
    with cf.ThreadPoolExecutor(max_workers=a.jobs) as ex:
        futs = [ex.submit(_replay_file, fn) for fn in stored]
        futs2 = [
            ex.submit(run_worker, prop, "collect", s, seed,
                      os.path.join(work, f"shard_{i}.json"),
                      ["--wall", str(wall_budget)], HARD_SHARD_TIMEOUT[a.tier])
            for i, s in enumerate(shards)
        ]
        for f in futs:
            fn, r = f.result()
            stored_results[fn] = r
        for f in futs2:
            results.append(f.result())

    harness_errors = []
    # stored replays
    for fn, r in stored_results.items():
        res = r["result"]
        if res is None or res.get("harness_errors"):
            harness_errors.append(f"stored replay {fn}: {r['stderr'][-500:]} "
                                  f"{(res or {}).get('harness_errors', '')}")
            continue
        sigs = [s for s, _ in res["failures"]]
        path = os.path.join("replays", prop, fn)
        listed = [e for e in known if os.path.basename(e.get("replay", "")) == fn]
        known_here = [e for e in listed if e.get("status") == "known"]
        if known_here:
            for ent in known_here:
                if ent["signature"] in sigs:
                    known_lines.append(f"KNOWN-FINDING: property={prop} {ent['what']} [{ent['signature']}] replay={path}")
            other = [s for s in sigs if s not in known_sigs]
            if other:
                violations.append((other[0], path))
        else:
            # regression input of a fixed defect (or plain regression case): must pass
            bad = [s for s in sigs if s not in known_sigs]
            if bad:
                violations.append((bad[0], path))

    merged = {
        "evaluations": 0, "nontrivial": set(), "labels": {}, "discards": {}, "failures": {},
        "samples": [], "max_err": {}, "excluded_known": {}, "incomplete": [], "per_shard": [],
        "counters": {},
    }
    for r in results:
        res = r["result"]
        name = r["shard"]["name"]
        if res is None:
            harness_errors.append(f"shard {name}: rc={r['rc']} {r['stderr'][-1500:]}")
            continue
        if res.get("n_harness_errors"):
            harness_errors.append(
                f"shard {name}: {res['n_harness_errors']} oracle/harness exceptions, first:\n"
                + res["harness_errors"][0]["error"]
                + "\ncase: " + json.dumps(res["harness_errors"][0]["case"])[:1500])
        merged["evaluations"] += res["evaluations"]
        merged["nontrivial"].update(res["nontrivial"])
        for k in ("labels", "discards", "excluded_known", "counters"):
            for kk, v in res.get(k, {}).items():
                merged[k][kk] = merged[k].get(kk, 0) + v
        for kk, v in res["max_err"].items():
            merged["max_err"][kk] = max(merged["max_err"].get(kk, 0.0), v)
        for s in res["samples"]:
            if len(merged["samples"]) < 4:
                merged["samples"].append(s)
        if not res.get("complete", True):
            merged["incomplete"].append({"shard": name, "not_run": res.get("not_run")})
        for sig, rec in res["failures"].items():
            m = merged["failures"].setdefault(sig, {"count": 0, "first": None, "shard": None})
            m["count"] += rec["count"]
            if m["first"] is None:
                m["first"], m["shard"] = rec["first"], r["shard"]
        entry = {"shard": name, "evaluations": res["evaluations"], "wall_s": round(r["wall"], 1)}
        for k in ("fuzz", "fuzz_fallback"):
            if res.get(k):
                entry[k] = res[k]
        merged["per_shard"].append(entry)

    # --------------------------------------------------------------- phase 2: shrink new signatures
    new_sigs = [s for s in merged["failures"] if s not in known_sigs]
    suppressed = {s: merged["failures"][s]["count"] for s in merged["failures"] if s in known_sigs}
    shrink_budget = float(getattr(mod, "SHRINK_BUDGET", {}).get(a.tier, 45 if a.tier == "quick" else 240))
    max_shrinks = 12

    def _shrink(sig):
        rec = merged["failures"][sig]
        r = run_worker(prop, "shrink", rec["shard"], seed,
                       os.path.join(work, f"shrink_{sig_hash(sig)}.json"),
                       ["--target", sig, "--budget", str(shrink_budget)],
                       timeout=shrink_budget * 6 + 600)
        return sig, r

    shutil.rmtree(os.path.join(ROOT, "replays", prop, "new"), ignore_errors=True)
    if new_sigs:
        os.makedirs(os.path.join(ROOT, "replays", prop, "new"), exist_ok=True)
    with cf.ThreadPoolExecutor(max_workers=a.jobs) as ex:
        for sig, r in ex.map(_shrink, new_sigs[:max_shrinks]):
            rec = merged["failures"][sig]
            best = (r["result"] or {}).get("best") or {}
            case = best.get("case") or rec["first"]["case"]
            detail = best.get("detail") or rec["first"]["detail"]
            path = os.path.join("replays", prop, "new", f"{sig_hash(sig)}.json")
            os.makedirs(os.path.join(ROOT, "replays", prop, "new"), exist_ok=True)
            with open(os.path.join(ROOT, path), "w") as fh:
                json.dump({"property": prop, "signature": sig, "shard": rec["shard"],
                           "case": case, "detail": detail, "seed": seed, "tier": a.tier,
                           "shrunk": bool(best.get("case"))}, fh, indent=1, sort_keys=True)
            violations.append((sig, path))
    for sig in new_sigs[max_shrinks:]:
        rec = merged["failures"][sig]
        path = os.path.join("replays", prop, "new", f"{sig_hash(sig)}.json")
        os.makedirs(os.path.join(ROOT, "replays", prop, "new"), exist_ok=True)
        with open(os.path.join(ROOT, path), "w") as fh:
            json.dump({"property": prop, "signature": sig, "shard": rec["shard"],
                       "case": rec["first"]["case"], "detail": rec["first"]["detail"],
                       "seed": seed, "tier": a.tier, "shrunk": False}, fh, indent=1, sort_keys=True)
        violations.append((sig, path))

    # ------------------------------------------------------------------------------------ report
    wall = time.time() - t0
    for line in known_lines:
        print(line)
    for sig, path in violations:
        print(f"  violation signature: {sig}")
        print(f"VIOLATION property={prop} replay={path}")
    if harness_errors:
        for h in harness_errors[:5]:
            print(f"HARNESS-ERROR property={prop} {h}")
    n_nt = len(merged["nontrivial"])
    print(f"[{prop}] tier={a.tier} seed={seed} evaluations={merged['evaluations']} "
          f"distinct_nontrivial={n_nt} discards={sum(merged['discards'].values())} "
          f"violations={len(violations)} known={len(known_lines)} wall={wall:.1f}s")

    if not a.no_evidence:
        ev = {
            "property_id": prop,
            "tier": a.tier,
            "seed": seed,
            "level": mod.LEVEL,
            "coverage": {
                "evaluations": merged["evaluations"],
                "distinct_nontrivial": n_nt,
                "rule": mod.RULE,
                "samples": merged["samples"][:3] or [{"note": "no non-trivial sample recorded"}],
                "class_histogram": dict(sorted(merged["labels"].items())),
                "discarded": merged["discards"],
                "excluded_known": merged["excluded_known"],
                "counters": merged["counters"],
                "suppressed_known_signatures": suppressed,
                "max_discrepancy_in_units_of_tolerance": merged["max_err"],
                "per_shard": merged["per_shard"],
                "inconclusive_not_run": merged["incomplete"],
                "stored_replays_run": len(stored),
                "exhaustive": bool(getattr(mod, "EXHAUSTIVE", False)),
                "violation_signatures": [s for s, _ in violations],
                "known_findings_reproduced": known_lines,
            },
            "assumptions": list(getattr(mod, "ASSUMPTIONS", [])),
            "wall_s": round(wall, 2),
            "violations": len(violations),
        }
        os.makedirs(os.path.join(ROOT, "evidence"), exist_ok=True)
        with open(os.path.join(ROOT, "evidence", f"{prop}.json"), "w") as fh:
            json.dump(ev, fh, indent=1, sort_keys=True)

    if violations:
        return 1
    if harness_errors:
        return 2
    return exit_code


if __name__ == "__main__":
    sys.exit(main())

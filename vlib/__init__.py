"""Shared machinery for the pyhf property checks (see /verif/DESIGN.md section 2)."""

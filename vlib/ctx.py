"""Per-case context handed to every property function, and the per-shard collector.

A property function never raises for an oracle mismatch; it calls ``ctx.fail(signature, ...)`` and
generation continues (collect-then-shrink, DESIGN.md 2.2).  The signature is a short categorical
string built by the check from structural attributes of the case, never from free text.
"""
import hashlib
import json
import math
import traceback


def jhash(obj):
    return hashlib.sha1(
        json.dumps(obj, sort_keys=True, default=str).encode()
    ).hexdigest()[:14]


def innermost_pyhf_frame(exc):
    """(file, function) of the innermost traceback frame inside the pyhf package."""
    where = None
    for fs in traceback.extract_tb(exc.__traceback__):
        fn = fs.filename.replace("\\", "/")
        if "/pyhf/" in fn:
            where = (fn.split("/pyhf/", 1)[1], fs.name)
    return where


def raised_inside_pyhf(exc):
    """(file, function) of the innermost pyhf frame if no frame of the verification code lies deeper than it,
    i.e. the exception was raised by pyhf (or a library it called), not by the harness; else None."""
    last_pyhf, last_verif, where = -1, -1, None
    for i, fs in enumerate(traceback.extract_tb(exc.__traceback__)):
        fn = fs.filename.replace("\\", "/")
        if "/pyhf/" in fn:
            last_pyhf, where = i, (fn.split("/pyhf/", 1)[1], fs.name)
        elif "/verif/" in fn or "/props/" in fn or "/vlib/" in fn:
            last_verif = i
    return where if last_pyhf > last_verif else None


class Discard(Exception):
    """Raised by a property function to drop a case (counted, never a violation)."""

    def __init__(self, reason):
        super().__init__(reason)
        self.reason = reason


class Ctx:
    def __init__(self, shard=None):
        self.shard = shard or {}
        self.failures = []  # list of (signature, detail dict)
        self.labels = []
        self.nontrivial_key = None
        self.discard_reason = None
        self.max_err = {}  # name -> largest observed discrepancy in units of tolerance
        self.excluded_known = []
        self.counters = {}

    def count(self, name, n=1):
        """extra measured counters (e.g. number of enumerated corruptions inside one case)"""
        self.counters[name] = self.counters.get(name, 0) + n

    # -- reporting -------------------------------------------------------------------------
    def fail(self, signature, **detail):
        self.failures.append((signature, _clean(detail)))

    def label(self, *labels):
        self.labels.extend(labels)

    def nontrivial(self, key):
        """Mark the case non-trivial by the property's rule; key identifies distinctness."""
        self.nontrivial_key = key if isinstance(key, str) else jhash(key)

    def discard(self, reason):
        raise Discard(reason)

    def excluded(self, what):
        self.excluded_known.append(what)

    def err(self, name, ratio):
        """Record a discrepancy in units of its tolerance (ratio <= 1 means within tolerance)."""
        if ratio != ratio:
            ratio = float("inf")
        if ratio > self.max_err.get(name, 0.0):
            self.max_err[name] = float(ratio)

    # -- helpers ---------------------------------------------------------------------------
    def close(self, name, got, want, tol, signature, **detail):
        """Compare two floats with absolute tolerance ``tol``; record a failure if they differ."""
        got = float(got)
        want = float(want)
        if math.isnan(got) or math.isnan(want) or math.isinf(got) or math.isinf(want):
            ok = (got == want) or (math.isnan(got) and math.isnan(want))
            ratio = 0.0 if ok else float("inf")
        else:
            d = abs(got - want)
            ratio = d / tol if tol > 0 else (0.0 if d == 0 else float("inf"))
            ok = ratio <= 1.0
        self.err(name, ratio)
        if not ok:
            self.fail(signature, got=got, want=want, tol=tol, **detail)
        return ok

    def call(self, signature_prefix, fn, *args, **kwargs):
        """Call into pyhf where the property promises success.

        An exception is recorded as a failure whose signature carries the exception type and the
        innermost pyhf frame (root-cause bucketing); returns (ok, value).
        """
        try:
            return True, fn(*args, **kwargs)
        except Discard:
            raise
        except Exception as exc:  # noqa: BLE001 - bucketing is the point
            where = innermost_pyhf_frame(exc)
            if where is None:
                # not raised inside pyhf: oracle/harness problem, let it propagate
                raise
            sig = f"{signature_prefix}/raises/{type(exc).__name__}@{where[0]}:{where[1]}"
            self.fail(sig, message=str(exc)[:300])
            return False, None


def _clean(obj):
    """Make a detail structure JSON-serialisable."""
    if isinstance(obj, dict):
        return {str(k): _clean(v) for k, v in obj.items()}
    if isinstance(obj, (list, tuple)):
        return [_clean(v) for v in obj]
    if isinstance(obj, (str, int, bool)) or obj is None:
        return obj
    if isinstance(obj, float):
        if math.isnan(obj) or math.isinf(obj):
            return repr(obj)
        return obj
    try:
        import numpy as np

        if isinstance(obj, np.generic):
            return _clean(obj.item())
        if isinstance(obj, np.ndarray):
            return _clean(obj.tolist())
    except Exception:  # noqa: BLE001
        pass
    return repr(obj)[:200]


class Collector:
    """Accumulates what one shard explored."""

    def __init__(self, max_samples=3, keep_smallest=False):
        self.keep_smallest = keep_smallest
        self.evaluations = 0
        self.nontrivial = set()
        self.labels = {}
        self.discards = {}
        self.failures = {}  # signature -> {"count": n, "first": {...}}
        self.samples = []
        self.max_samples = max_samples
        self.max_err = {}
        self.excluded_known = {}
        self.harness_errors = []
        self.counters = {}

    def add(self, case, ctx):
        self.evaluations += 1
        for k, v in ctx.counters.items():
            self.counters[k] = self.counters.get(k, 0) + v
        for lab in set(ctx.labels):
            self.labels[lab] = self.labels.get(lab, 0) + 1
        for k, v in ctx.max_err.items():
            if v > self.max_err.get(k, 0.0):
                self.max_err[k] = v
        for w in ctx.excluded_known:
            self.excluded_known[w] = self.excluded_known.get(w, 0) + 1
        if ctx.nontrivial_key is not None:
            new = ctx.nontrivial_key not in self.nontrivial
            self.nontrivial.add(ctx.nontrivial_key)
            if new and len(self.samples) < self.max_samples:
                self.samples.append(_clean(case))
        for sig, detail in ctx.failures:
            rec = self.failures.setdefault(sig, {"count": 0, "first": None})
            rec["count"] += 1
            if rec["first"] is None:
                rec["first"] = {"case": _clean(case), "detail": detail}
            elif self.keep_smallest:
                c = _clean(case)
                if len(json.dumps(c)) < len(json.dumps(rec["first"]["case"])):
                    rec["first"] = {"case": c, "detail": detail}

    def add_discard(self, reason):
        self.evaluations += 1
        self.discards[reason] = self.discards.get(reason, 0) + 1

    def add_harness_error(self, case, exc):
        self.harness_errors.append(
            {
                "case": _clean(case),
                "error": "".join(
                    traceback.format_exception(type(exc), exc, exc.__traceback__)
                )[-3000:],
            }
        )

    def to_json(self):
        return {
            "evaluations": self.evaluations,
            "nontrivial": sorted(self.nontrivial),
            "labels": self.labels,
            "discards": self.discards,
            "failures": self.failures,
            "samples": self.samples,
            "max_err": self.max_err,
            "excluded_known": self.excluded_known,
            "counters": self.counters,
            "harness_errors": self.harness_errors[:5],
            "n_harness_errors": len(self.harness_errors),
        }

"""Independent reference model of the HistFactory likelihood (DESIGN.md 3.2).

Deliberately slow, loop based and keyed by *names*; shares no code with pyhf's tensor machinery,
its ``_slow_*`` interpolators or its typed ``A_inverse``.  Written from the published definitions
(CERN-OPEN-2012-016, pyhf docs ``likelihood.rst``, arXiv:1007.1727).
"""
import math

import numpy as np

# --------------------------------------------------------------------------------------------------
# interpolation codes (scalar reference forms)
# --------------------------------------------------------------------------------------------------


def interp_code0(alpha, dn, nom, up):
    """piecewise linear, additive: returns the shift to add to nom."""
    return alpha * (up - nom) if alpha >= 0 else alpha * (nom - dn)


def interp_code1(alpha, dn, nom, up):
    """piecewise exponential, multiplicative: returns the factor."""
    if alpha >= 0:
        return math.pow(up / nom, alpha)
    return math.pow(dn / nom, -alpha)


def interp_code2(alpha, dn, nom, up):
    """quadratic inside, linear outside, continuous at +-1 (ROOT form), additive shift."""
    a = 0.5 * (up + dn) - nom
    b = 0.5 * (up - dn)
    if alpha > 1:
        return (b + 2 * a) * (alpha - 1) + (up - nom)
    if alpha < -1:
        return (b - 2 * a) * (alpha + 1) + (dn - nom)
    return a * alpha * alpha + b * alpha


_C4_CACHE = {}


def _code4_matrix(alpha0):
    if alpha0 not in _C4_CACHE:
        a = float(alpha0)
        rows = []
        for sgn in (+1, -1):
            x = sgn * a
            rows.append([x**i for i in range(1, 7)])
        for sgn in (+1, -1):
            x = sgn * a
            rows.append([i * x ** (i - 1) for i in range(1, 7)])
        for sgn in (+1, -1):
            x = sgn * a
            rows.append([i * (i - 1) * x ** (i - 2) if i >= 2 else 0.0 for i in range(1, 7)])
        # order: value(+), value(-), d(+), d(-), dd(+), dd(-)
        _C4_CACHE[alpha0] = np.array(rows, dtype=float)
    return _C4_CACHE[alpha0]


def code4_coefficients(dn, nom, up, alpha0=1.0):
    du = up / nom
    dd = dn / nom
    lu, ld = math.log(du), math.log(dd)
    pu, pd = math.pow(du, alpha0), math.pow(dd, alpha0)
    rhs = np.array(
        [
            pu - 1.0,  # f(a0) = du^a0
            pd - 1.0,  # f(-a0) = dd^a0
            lu * pu,  # f'(a0) = ln(du) du^a0
            -ld * pd,  # f'(-a0) = -ln(dd) dd^a0
            lu * lu * pu,  # f''(a0)
            ld * ld * pd,  # f''(-a0)
        ]
    )
    return np.linalg.solve(_code4_matrix(alpha0), rhs)


def interp_code4(alpha, dn, nom, up, alpha0=1.0):
    """polynomial inside |alpha|<alpha0, exponential outside; multiplicative factor."""
    if alpha >= alpha0:
        return math.pow(up / nom, alpha)
    if alpha <= -alpha0:
        return math.pow(dn / nom, -alpha)
    c = code4_coefficients(dn, nom, up, alpha0)
    val = 1.0
    for i in range(1, 7):
        val += c[i - 1] * alpha**i
    return float(val)


_C4P_M = None


def code4p_coefficients(dn, nom, up):
    """Six polynomial coefficients from value / slope / curvature matching at +-1."""
    global _C4P_M
    if _C4P_M is None:
        _C4P_M = _code4_matrix(1.0)
    du = up - nom
    dd = nom - dn
    rhs = np.array([du, -dd, du, dd, 0.0, 0.0])
    return np.linalg.solve(_C4P_M, rhs)


def interp_code4p(alpha, dn, nom, up):
    """polynomial inside |alpha|<=1, linear outside; additive shift."""
    if alpha > 1:
        return alpha * (up - nom)
    if alpha < -1:
        return alpha * (nom - dn)
    c = code4p_coefficients(dn, nom, up)
    val = 0.0
    for i in range(1, 7):
        val += c[i - 1] * alpha**i
    return float(val)


ADDITIVE = {"code0": interp_code0, "code2": interp_code2, "code4p": interp_code4p}
MULTIPLICATIVE = {"code1": interp_code1, "code4": interp_code4}


def interp(code, alpha, dn, nom, up, alpha0=1.0):
    code = {0: "code0", 1: "code1", 2: "code2", 4: "code4", "4p": "code4p"}.get(code, code)
    if code == "code4":
        return interp_code4(alpha, dn, nom, up, alpha0)
    if code in ADDITIVE:
        return ADDITIVE[code](alpha, dn, nom, up)
    return MULTIPLICATIVE[code](alpha, dn, nom, up)


# --------------------------------------------------------------------------------------------------
# probability primitives
# --------------------------------------------------------------------------------------------------


def xlogy(x, y):
    if x == 0:
        return 0.0
    if y <= 0:
        return -math.inf if y == 0 else math.nan
    return x * math.log(y)


def poisson_logpdf(n, lam):
    return xlogy(n, lam) - lam - math.lgamma(n + 1.0)


def normal_logpdf(x, mu, sigma):
    z = (x - mu) / sigma
    return -math.log(sigma) - 0.5 * math.log(2 * math.pi) - 0.5 * z * z


def _fsum(it):
    vals = list(it)
    if any(v != v for v in vals):
        return math.nan
    if any(v == -math.inf for v in vals):
        return -math.inf
    return math.fsum(vals)


# --------------------------------------------------------------------------------------------------
# parameter table
# --------------------------------------------------------------------------------------------------

DEFAULTS = {
    "normfactor": dict(n=None, constraint=None, init=1.0, bounds=(0.0, 10.0)),
    "shapefactor": dict(n=None, constraint=None, init=1.0, bounds=(0.0, 10.0)),
    "normsys": dict(n=1, constraint="normal", init=0.0, bounds=(-5.0, 5.0)),
    "histosys": dict(n=1, constraint="normal", init=0.0, bounds=(-5.0, 5.0)),
    "staterror": dict(n=None, constraint="normal", init=1.0, bounds=(1e-10, 10.0)),
    "shapesys": dict(n=None, constraint="poisson", init=1.0, bounds=(1e-10, 10.0)),
    "lumi": dict(n=1, constraint="normal", init=None, bounds=None),
}


class Param:
    __slots__ = ("name", "kinds", "n", "scalar", "constraint", "inits", "bounds", "fixed",
                 "auxdata", "sigmas", "factors", "overridden")

    def __repr__(self):
        return f"Param({self.name}, {sorted(self.kinds)}, n={self.n}, {self.constraint})"


class RefModel:
    """Name-keyed reference of a pyhf model spec ({'channels': [...], 'parameters': [...]})."""

    def __init__(self, spec, histosys_code="code4p", normsys_code="code4",
                 clip_sample=None, clip_bin=None):
        self.spec = spec
        self.histosys_code = histosys_code
        self.normsys_code = normsys_code
        self.clip_sample = clip_sample
        self.clip_bin = clip_bin
        self.channels = sorted(c["name"] for c in spec["channels"])
        self.by_channel = {c["name"]: c for c in spec["channels"]}
        self.nbins = {c["name"]: len(c["samples"][0]["data"]) for c in spec["channels"]}
        self.all_samples = sorted({s["name"] for c in spec["channels"] for s in c["samples"]})
        self.user = {p["name"]: p for p in spec.get("parameters", [])}
        self.params = self._param_table()

    # ----------------------------------------------------------------------------------------------
    def _param_table(self):
        params = {}
        # first pass: which (name, kind) exist and where
        uses = {}
        for cname in self.channels:
            ch = self.by_channel[cname]
            for s in ch["samples"]:
                for m in s["modifiers"]:
                    uses.setdefault(m["name"], []).append((m["type"], cname, s, m))
        for name, ulist in uses.items():
            p = Param()
            p.name = name
            p.kinds = {u[0] for u in ulist}
            kind0 = sorted(p.kinds)[0]
            d = DEFAULTS[kind0]
            p.constraint = d["constraint"]
            p.sigmas = None
            p.factors = None
            p.auxdata = None
            if p.kinds <= {"normsys", "histosys"}:
                p.n, p.scalar = 1, True
                p.inits, p.bounds, p.fixed = [0.0], [(-5.0, 5.0)], [False]
                p.auxdata = [0.0]
            elif p.kinds == {"normfactor"}:
                p.n, p.scalar = 1, True
                p.inits, p.bounds, p.fixed = [1.0], [(0.0, 10.0)], [False]
            elif p.kinds == {"lumi"}:
                p.n, p.scalar = 1, True
                p.inits, p.bounds, p.fixed = None, None, [False]
            elif p.kinds == {"shapefactor"}:
                widths = {self.nbins[u[1]] for u in ulist}
                p.n = max(widths)
                p.scalar = False
                p.inits, p.bounds, p.fixed = [1.0] * p.n, [(0.0, 10.0)] * p.n, [False] * p.n
            elif p.kinds == {"shapesys"}:
                (_, cname, s, m) = ulist[0]
                p.n, p.scalar = self.nbins[cname], False
                fac, fixed = [], []
                for nom, unc in zip(s["data"], m["data"]):
                    ok = nom > 0 and unc > 0
                    fac.append((nom * nom) / (unc * unc) if ok else 1.0)
                    fixed.append(not ok)
                p.factors = fac
                p.auxdata = list(fac)
                p.inits, p.bounds, p.fixed = [1.0] * p.n, [(1e-10, 10.0)] * p.n, fixed
            elif p.kinds == {"staterror"}:
                # components follow the sorted-channel concatenation of the bins it acts on
                chans = sorted({u[1] for u in ulist})
                sig, fixed = [], []
                for cname in chans:
                    part = [u for u in ulist if u[1] == cname]
                    for b in range(self.nbins[cname]):
                        tot = sum(u[2]["data"][b] for u in part)
                        q = sum(u[3]["data"][b] ** 2 for u in part)
                        rel = math.sqrt(q) / tot if tot > 0 else 0.0
                        if rel == 0.0:
                            sig.append(1.0)
                            fixed.append(True)
                        else:
                            sig.append(rel)
                            fixed.append(False)
                p.n, p.scalar = len(sig), False
                p.sigmas = sig
                p.auxdata = [1.0] * p.n
                p.inits, p.bounds, p.fixed = [1.0] * p.n, [(1e-10, 10.0)] * p.n, fixed
            else:
                raise ValueError(f"reference model: unsupported kind mix {p.kinds} for {name}")
            # user overrides (verbatim)
            u = self.user.get(name, {})
            p.overridden = sorted(k for k in u if k != "name")
            if "inits" in u:
                p.inits = list(u["inits"])
            if "bounds" in u:
                p.bounds = [tuple(b) for b in u["bounds"]]
            if "fixed" in u:
                p.fixed = [bool(u["fixed"])] * p.n
            if "auxdata" in u:
                p.auxdata = list(u["auxdata"])
            if "sigmas" in u:
                p.sigmas = list(u["sigmas"])
            if "factors" in u:
                p.factors = list(u["factors"])
            params[name] = p
        return params

    # ----------------------------------------------------------------------------------------------
    def sample_rates(self, pars):
        """{channel: {sample: [rate per bin]}} before any clipping; pars is {name: [values]}."""
        out = {}
        for cname in self.channels:
            ch = self.by_channel[cname]
            out[cname] = {}
            for s in ch["samples"]:
                rates = []
                for b, nom in enumerate(s["data"]):
                    shift = 0.0
                    factor = 1.0
                    for m in s["modifiers"]:
                        t, name = m["type"], m["name"]
                        theta = pars[name]
                        if t == "histosys":
                            shift += interp(self.histosys_code, theta[0], m["data"]["lo_data"][b],
                                            nom, m["data"]["hi_data"][b])
                        elif t == "normsys":
                            factor *= interp(self.normsys_code, theta[0], m["data"]["lo"], 1.0,
                                             m["data"]["hi"])
                        elif t in ("normfactor", "lumi"):
                            factor *= theta[0]
                        elif t in ("shapefactor", "shapesys"):
                            factor *= theta[b]
                        elif t == "staterror":
                            factor *= theta[self._stat_offset(name, cname) + b]
                        else:
                            raise ValueError(t)
                    rates.append(factor * (nom + shift))
                out[cname][s["name"]] = rates
        return out

    def _stat_offset(self, name, cname):
        off = 0
        for c in self.channels:
            if c == cname:
                return off
            if any(m["type"] == "staterror" and m["name"] == name
                   for s in self.by_channel[c]["samples"] for m in s["modifiers"]):
                off += self.nbins[c]
        raise KeyError(cname)

    def expected_by_sample(self, pars):
        """per-sample rates after per-sample clipping (absent samples do not exist)."""
        r = self.sample_rates(pars)
        if self.clip_sample is not None:
            for c in r:
                for s in r[c]:
                    r[c][s] = [max(v, self.clip_sample) for v in r[c][s]]
        return r

    def expected_main(self, pars):
        """{channel: [expected count per bin]} after both clippings."""
        r = self.expected_by_sample(pars)
        out = {}
        for c in self.channels:
            tot = [0.0] * self.nbins[c]
            for s in sorted(r[c]):
                for b, v in enumerate(r[c][s]):
                    tot[b] += v
            if self.clip_bin is not None:
                tot = [max(v, self.clip_bin) for v in tot]
            out[c] = tot
        return out

    def structural_zero(self, cname, b):
        """True if bin b of the channel is zero for every parameter value (all yields/variations 0)."""
        for s in self.by_channel[cname]["samples"]:
            if s["data"][b] != 0:
                return False
            for m in s["modifiers"]:
                if m["type"] == "histosys" and (m["data"]["lo_data"][b] != 0 or m["data"]["hi_data"][b] != 0):
                    return False
        return True

    def rates_safely_positive(self, pars, floor=1e-6):
        """every bin's rate is > floor, or the bin is structurally zero (no rounding-sensitive zeros)."""
        e = self.expected_main(pars)
        for c in self.channels:
            for b, v in enumerate(e[c]):
                if v != v or v < floor:
                    if not (v == 0 and self.structural_zero(c, b)):
                        return False
        return True

    def expected_main_flat(self, pars):
        e = self.expected_main(pars)
        return [v for c in self.channels for v in e[c]]

    # ----------------------------------------------------------------------------------------------
    def constrained(self):
        return [p for p in self.params.values() if p.constraint is not None]

    def expected_aux(self, pars):
        """{name: [expected auxiliary measurement per component]}"""
        out = {}
        for p in self.constrained():
            th = pars[p.name]
            if p.constraint == "poisson":
                out[p.name] = [th[k] * p.factors[k] for k in range(p.n)]
            else:
                out[p.name] = [th[k] for k in range(p.n)]
        return out

    def constraint_terms(self, pars, aux):
        """list of (name, component, log term); aux is {name: [values]}."""
        terms = []
        for p in self.constrained():
            th = pars[p.name]
            a = aux[p.name]
            for k in range(p.n):
                if p.constraint == "poisson":
                    terms.append((p.name, k, poisson_logpdf(a[k], th[k] * p.factors[k])))
                else:
                    sigma = p.sigmas[k] if p.sigmas is not None else 1.0
                    terms.append((p.name, k, normal_logpdf(a[k], th[k], sigma)))
        return terms

    def main_terms(self, pars, maindata):
        """list of (channel, bin, log Poisson term); maindata is {channel: [counts]}."""
        e = self.expected_main(pars)
        return [
            (c, b, poisson_logpdf(maindata[c][b], e[c][b]))
            for c in self.channels
            for b in range(self.nbins[c])
        ]

    def logpdf_parts(self, pars, maindata, aux):
        """(main log term sum, constraint log term sum, sum of |finite terms|)."""
        mt = self.main_terms(pars, maindata)
        ct = self.constraint_terms(pars, aux)
        main = _fsum(t[2] for t in mt)
        con = _fsum(t[2] for t in ct)
        scale = math.fsum(abs(t[2]) for t in mt + ct if math.isfinite(t[2]))
        return main, con, scale

    def nominal_aux(self):
        return {p.name: list(p.auxdata) for p in self.constrained()}

    def inits(self):
        return {p.name: list(p.inits) for p in self.params.values()}


# --------------------------------------------------------------------------------------------------
# glue between the flat vectors of a pyhf model and the name-keyed reference
# --------------------------------------------------------------------------------------------------


def pars_to_flat(config, pars_by_name):
    """Flat vector in the layout the model *reports* (par_order / par_slice)."""
    flat = [None] * config.npars
    for name in config.par_order:
        sl = config.par_slice(name)
        vals = pars_by_name[name]
        if sl.stop - sl.start != len(vals):
            raise LayoutMismatch(f"{name}: slice {sl} but reference has {len(vals)} components")
        flat[sl] = list(vals)
    if any(v is None for v in flat):
        raise LayoutMismatch("reported slices do not cover the parameter vector")
    return flat


def flat_to_pars(config, flat):
    return {name: list(flat[config.par_slice(name)]) for name in config.par_order}


def aux_to_flat(config, ref, aux_by_name):
    out = []
    for name in config.auxdata_order:
        out += list(aux_by_name[name])
    return out


def main_to_flat(config, main_by_channel):
    out = []
    for c in config.channels:
        out += list(main_by_channel[c])
    return out


class LayoutMismatch(Exception):
    pass

"""Backend switching and tensor -> python conversion that is safe on every backend."""
import numpy as np

_available = {}


def available(name):
    """Probe whether a backend can be imported (reported in evidence, never silently skipped)."""
    if name in _available:
        return _available[name]
    mods = {"numpy": "numpy", "jax": "jax", "pytorch": "torch", "tensorflow": "tensorflow"}
    try:
        __import__(mods[name])
        if name == "tensorflow":
            __import__("tensorflow_probability")
        ok = True
    except Exception:  # noqa: BLE001
        ok = False
    _available[name] = ok
    return ok


def use(backend="numpy", precision="64b", optimizer=None):
    import pyhf

    if backend == "pytorch":
        import torch

        torch.set_num_threads(1)
    pyhf.set_backend(backend, optimizer, precision=precision)
    return pyhf.tensorlib


def reset():
    import pyhf

    pyhf.set_backend("numpy", precision="64b")


def tonp(t):
    """Convert any backend tensor (or nested list) to a float64/int numpy array."""
    if isinstance(t, np.ndarray):
        return t
    if isinstance(t, (list, tuple)):
        return np.asarray([tonp(x) for x in t])
    if isinstance(t, (float, int, bool, np.generic)):
        return np.asarray(t)
    mod = type(t).__module__
    if mod.startswith("torch"):
        return t.detach().cpu().numpy()
    if hasattr(t, "numpy") and not mod.startswith("jax"):
        return t.numpy()
    return np.asarray(t)


def tolist(t):
    return tonp(t).tolist()

"""Independent RFC 6902 (JSON Patch) applier used as the oracle for C17 / C19.

Written from the RFC text; shares nothing with the ``jsonpatch`` package pyhf uses.
"""
import copy


class PatchError(Exception):
    pass


def _tokens(pointer):
    if pointer == "":
        return []
    if not pointer.startswith("/"):
        raise PatchError(f"bad pointer {pointer!r}")
    return [t.replace("~1", "/").replace("~0", "~") for t in pointer[1:].split("/")]


def _index(tok, seq, allow_end):
    if tok == "-":
        if allow_end:
            return len(seq)
        raise PatchError("'-' not allowed here")
    if not (tok.isdigit() and (tok == "0" or not tok.startswith("0"))):
        raise PatchError(f"bad array index {tok!r}")
    i = int(tok)
    if i > len(seq) or (i == len(seq) and not allow_end):
        raise PatchError(f"index {i} out of range")
    return i


def _walk(doc, toks):
    cur = doc
    for t in toks:
        if isinstance(cur, list):
            cur = cur[_index(t, cur, False)]
        elif isinstance(cur, dict):
            if t not in cur:
                raise PatchError(f"member {t!r} not found")
            cur = cur[t]
        else:
            raise PatchError("cannot descend into a scalar")
    return cur


def _get(doc, pointer):
    return _walk(doc, _tokens(pointer))


def _add(doc, pointer, value):
    toks = _tokens(pointer)
    if not toks:
        return value
    parent = _walk(doc, toks[:-1])
    last = toks[-1]
    if isinstance(parent, list):
        parent.insert(_index(last, parent, True), value)
    elif isinstance(parent, dict):
        parent[last] = value
    else:
        raise PatchError("cannot add into a scalar")
    return doc


def _remove(doc, pointer):
    toks = _tokens(pointer)
    if not toks:
        raise PatchError("cannot remove the root")
    parent = _walk(doc, toks[:-1])
    last = toks[-1]
    if isinstance(parent, list):
        return parent.pop(_index(last, parent, False))
    if isinstance(parent, dict):
        if last not in parent:
            raise PatchError(f"member {last!r} not found")
        return parent.pop(last)
    raise PatchError("cannot remove from a scalar")


def apply_patch(doc, ops):
    """Apply a list of operations to a deep copy of doc; the input is never modified."""
    doc = copy.deepcopy(doc)
    for op in ops:
        kind = op["op"]
        if kind == "add":
            doc = _add(doc, op["path"], copy.deepcopy(op["value"]))
        elif kind == "remove":
            _remove(doc, op["path"])
        elif kind == "replace":
            toks = _tokens(op["path"])
            if not toks:
                doc = copy.deepcopy(op["value"])
            else:
                _get(doc, op["path"])  # must exist
                _remove(doc, op["path"])
                doc = _add(doc, op["path"], copy.deepcopy(op["value"]))
        elif kind == "move":
            if op["path"].startswith(op["from"] + "/"):
                raise PatchError("cannot move into own child")
            val = _remove(doc, op["from"])
            doc = _add(doc, op["path"], val)
        elif kind == "copy":
            doc = _add(doc, op["path"], copy.deepcopy(_get(doc, op["from"])))
        elif kind == "test":
            if _get(doc, op["path"]) != op["value"]:
                raise PatchError("test failed")
        else:
            raise PatchError(f"unknown op {kind}")
    return doc

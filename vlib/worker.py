"""One shard of one property, run in a fresh process (DESIGN.md 2.1).

modes
  collect : generate cases, run the oracle, record every mismatch by signature, never stop early
  shrink  : same generator and seed, fail only for one signature, let Hypothesis minimise it
  replay  : run the oracle on exactly one stored case (no Hypothesis involved)
"""
import os
import sys

# -- process hygiene: must happen before numpy / torch / tensorflow / jax are imported -------------
for _k, _v in {
    "OMP_NUM_THREADS": "1",
    "OPENBLAS_NUM_THREADS": "1",
    "MKL_NUM_THREADS": "1",
    "NUMEXPR_NUM_THREADS": "1",
    "TF_NUM_INTRAOP_THREADS": "1",
    "TF_NUM_INTEROP_THREADS": "1",
    "TF_CPP_MIN_LOG_LEVEL": "3",
    "TF_ENABLE_ONEDNN_OPTS": "0",
    "CUDA_VISIBLE_DEVICES": "",
    "JAX_PLATFORMS": "cpu",
    "XLA_FLAGS": "--xla_cpu_multi_thread_eigen=false intra_op_parallelism_threads=1",
    "PYTHONHASHSEED": "0",
}.items():
    os.environ.setdefault(_k, _v)

import argparse  # noqa: E402
import hashlib  # noqa: E402
import importlib  # noqa: E402
import json  # noqa: E402
import logging  # noqa: E402
import time  # noqa: E402
import warnings  # noqa: E402

HERE = os.path.dirname(os.path.dirname(os.path.abspath(__file__)))
if HERE not in sys.path:
    sys.path.insert(0, HERE)
_src = os.environ.get("VERIF_PYHF_SRC")
if _src:
    sys.path.insert(0, _src)

from vlib.ctx import Collector, Ctx, Discard, _clean, raised_inside_pyhf  # noqa: E402


def derive_seed(seed, prop, shard_name):
    h = hashlib.sha256(f"{seed}|{prop}|{shard_name}".encode()).digest()
    return int.from_bytes(h[:8], "big") % (2**63)


def load_prop(prop):
    return importlib.import_module(f"props.{prop.lower()}")


def quiet():
    logging.disable(logging.CRITICAL)
    warnings.filterwarnings("ignore")
    try:
        import numpy as np

        np.seterr(all="ignore")
    except Exception:  # noqa: BLE001
        pass


def one_case(mod, shard, case, collector):
    """Run the oracle on one case; returns the Ctx (or None if discarded / harness error)."""
    ctx = Ctx(shard)
    try:
        mod.run_case(case, ctx)
    except Discard as d:
        collector.add_discard(d.reason)
        return None
    except Exception as exc:  # noqa: BLE001
        # Every generated input is valid by construction and rejections that a property expects are handled inside
        # the property: an exception raised *inside pyhf* that escapes is a finding (root-cause bucketed by type and
        # innermost pyhf frame).  A failed minimisation is pyhf's documented way to give up on a hard fit and stays
        # what it is where a property does not treat it; anything raised by the harness itself is a harness error.
        w = raised_inside_pyhf(exc)
        if w is None or type(exc).__name__ == "FailedMinimization":
            collector.add_harness_error(case, exc)
            return None
        ctx.fail(f"{mod.ID}/unexpected_exception/{type(exc).__name__}@{w[0]}:{w[1]}", message=str(exc)[:300])
    collector.add(case, ctx)
    return ctx


def _atheris():
    """atheris from /verif/.deps (installed offline by setup.sh); None if it cannot be imported"""
    deps = os.path.join(HERE, ".deps")
    if deps not in sys.path:
        sys.path.append(deps)
    try:
        import atheris

        return atheris
    except Exception:  # noqa: BLE001
        return None


def run_fuzz(mod, shard, seed, collector, wall_budget, finish):
    """Coverage-guided campaign: libFuzzer (atheris) mutates the byte string that Hypothesis decodes into a case
    of the property's own strategy (``fuzz_one_input``); pyhf is instrumented for coverage, the oracle is the
    same run_case as everywhere else.  libFuzzer never returns from Fuzz(), so this function writes the shard
    result through ``finish`` and leaves the process itself once ``runs`` inputs have been executed."""
    atheris = _atheris()
    if atheris is None:
        shard["_fuzz_fallback"] = "atheris not importable: the shard ran as plain random generation"
        shard2 = dict(shard, kind="hyp", examples=max(1, int(shard["runs"]) // 4))
        info = run_collect(mod, shard2, seed, collector, wall_budget)
        info["fuzz_fallback"] = shard["_fuzz_fallback"]
        return info
    import tempfile

    with atheris.instrument_imports(include=["pyhf"]):
        import pyhf  # noqa: F401
        import pyhf.patchset  # noqa: F401
        import pyhf.pdf  # noqa: F401
        import pyhf.workspace  # noqa: F401
    quiet()
    t0 = time.time()
    runs = int(shard["runs"])
    state = {"calls": 0, "done": False}

    # Hypothesis 6.168's own `fuzz_one_input` cannot be used: its BytestringProvider.draw_integer compares the
    # raw bits with [min_value, max_value] without adding min_value, so integers(lo, hi) with lo > hi - lo
    # (every st.permutations of >= 3 elements, among others) never terminate and every input is an overrun.
    # The same decoding is done here with that one method corrected.
    from hypothesis.control import BuildContext
    from hypothesis.errors import StopTest, UnsatisfiedAssumption
    from hypothesis.internal.conjecture.data import ConjectureData
    from hypothesis.internal.conjecture.providers import BytestringProvider

    class Provider(BytestringProvider):
        def draw_integer(self, min_value=None, max_value=None, *, weights=None, shrink_towards=0):
            if min_value is None and max_value is None:
                min_value, max_value = -(2**127), 2**127 - 1
            elif min_value is None:
                min_value = max_value - 2**64
            elif max_value is None:
                max_value = min_value + 2**64
            if min_value == max_value:
                return min_value
            span = max_value - min_value
            return min_value + self._draw_bits(span.bit_length()) % (span + 1)

    strategy = mod.strategy(shard)

    def fuzz_one(buf):
        data = ConjectureData(random=None, provider=Provider, provider_kw={"bytestring": bytes(buf)})
        try:
            with BuildContext(data, is_final=False, wrapped_test=fuzz_one):
                case = data.draw(strategy)
        except (StopTest, UnsatisfiedAssumption):
            return
        one_case(mod, shard, case, collector)

    def leave(complete):
        if state["done"]:
            return
        state["done"] = True
        finish({"complete": complete, "fuzz": {"engine": "atheris/libFuzzer", "inputs_executed": state["calls"],
                                                 "decoded_into_cases": collector.evaluations,
                                                 "wall_s": round(time.time() - t0, 1)}})
        sys.stdout.flush()
        sys.stderr.flush()
        os._exit(0)

    def target(data):
        state["calls"] += 1
        try:
            fuzz_one(data)
        except BaseException as exc:  # noqa: BLE001 - nothing may reach libFuzzer as a crash
            if isinstance(exc, (KeyboardInterrupt, SystemExit)):
                raise
            collector.add_harness_error({"fuzz_input_hex": bytes(data)[:256].hex()}, exc)
        if state["calls"] >= runs or (wall_budget and time.time() - t0 > wall_budget):
            leave(state["calls"] >= runs)

    corpus = tempfile.mkdtemp(prefix="corpus_", dir=os.path.dirname(shard["_out"]))
    # starting corpus: byte strings long enough for the strategy to decode a whole case (from the empty corpus
    # every short input is an overrun, which gives libFuzzer no coverage to climb); derived from the seed only
    import random

    rng = random.Random(derive_seed(seed, mod.ID, shard["name"]))
    for k in range(int(shard.get("corpus_files", 48))):
        n = rng.choice([256, 1024, 4096, int(shard.get("max_len", 8192))])
        style = k % 3
        if style == 0:
            blob = rng.randbytes(n)
        elif style == 1:  # small values: short collections, early alternatives
            blob = bytes(rng.choice([0, 0, 0, 1, 1, 2, 3, 7, 255]) for _ in range(n))
        else:
            blob = bytes(rng.randrange(0, 32) for _ in range(n))
        with open(os.path.join(corpus, f"seed_{k:03d}"), "wb") as fh:
            fh.write(blob)
    argv = [sys.argv[0], f"-seed={derive_seed(seed, mod.ID, shard['name']) % (2**31 - 1) + 1}", f"-runs={runs * 3}",
            f"-max_len={int(shard.get('max_len', 8192))}", "-len_control=0", "-print_final_stats=0", "-verbosity=0", "-rss_limit_mb=0",
            corpus]
    atheris.Setup(argv, target)
    atheris.Fuzz()
    leave(False)  # not reached: libFuzzer exits the process itself


def run_collect(mod, shard, seed, collector, wall_budget, finish=None):
    t0 = time.time()
    kind = shard.get("kind", "hyp")
    if kind == "fuzz":
        return run_fuzz(mod, shard, seed, collector, wall_budget, finish)
    if kind == "enum":
        n = 0
        for case in mod.cases(shard):
            one_case(mod, shard, case, collector)
            n += 1
        shard["_enumerated"] = n
        return {"complete": True}
    import hypothesis
    from hypothesis import HealthCheck, Phase, given, settings

    not_run = [0]

    @hypothesis.seed(derive_seed(seed, mod.ID, shard["name"]))
    @settings(
        max_examples=int(shard["examples"]),
        database=None,
        deadline=None,
        derandomize=False,
        report_multiple_bugs=False,
        suppress_health_check=list(HealthCheck),
        phases=[Phase.generate],
    )
    @given(mod.strategy(shard))
    def t(case):
        if wall_budget and time.time() - t0 > wall_budget:
            not_run[0] += 1
            return
        one_case(mod, shard, case, collector)

    t()
    return {"complete": not_run[0] == 0, "not_run": not_run[0]}


class _Found(Exception):
    pass


def run_shrink(mod, shard, seed, target_sig, budget_s):
    """Re-run the shard raising only for ``target_sig``; returns the smallest failing case seen."""
    import hypothesis
    from hypothesis import HealthCheck, Phase, given, settings

    best = {"case": None, "size": None, "detail": None}
    t0 = time.time()
    dummy = Collector()

    if shard.get("kind", "hyp") == "fuzz":
        return best  # the campaign itself kept the smallest failing case per signature

    if shard.get("kind", "hyp") == "enum":
        for case in mod.cases(shard):
            ctx = one_case(mod, shard, case, dummy)
            if ctx is None:
                continue
            hit = [d for s, d in ctx.failures if s == target_sig]
            if hit:
                size = len(json.dumps(_clean(case)))
                if best["size"] is None or size < best["size"]:
                    best.update(case=_clean(case), size=size, detail=hit[0])
        return best

    @hypothesis.seed(derive_seed(seed, mod.ID, shard["name"]))
    @settings(
        max_examples=int(shard["examples"]),
        database=None,
        deadline=None,
        derandomize=False,
        report_multiple_bugs=False,
        suppress_health_check=list(HealthCheck),
        phases=[Phase.generate, Phase.shrink],
    )
    @given(mod.strategy(shard))
    def t(case):
        if best["case"] is not None and time.time() - t0 > budget_s:
            return  # budget exhausted: stop being interesting, keep tracked best
        ctx = one_case(mod, shard, case, dummy)
        if ctx is None:
            return
        hit = [d for s, d in ctx.failures if s == target_sig]
        if hit:
            size = len(json.dumps(_clean(case)))
            if best["size"] is None or size <= best["size"]:
                best.update(case=_clean(case), size=size, detail=hit[0])
            raise _Found(target_sig)

    try:
        t()
    except BaseException:  # noqa: BLE001 - _Found, Flaky, ... : tracked best is what counts
        pass
    return best


def run_replay(mod, shard, case):
    col = Collector()
    ctx = one_case(mod, shard, case, col)
    out = {
        "failures": [] if ctx is None else [[s, d] for s, d in ctx.failures],
        "discarded": col.discards,
        "harness_errors": col.harness_errors,
    }
    return out


def main():
    ap = argparse.ArgumentParser()
    ap.add_argument("--prop", required=True)
    ap.add_argument("--mode", required=True, choices=["collect", "shrink", "replay"])
    ap.add_argument("--shard", required=True, help="JSON shard description")
    ap.add_argument("--seed", type=int, default=1)
    ap.add_argument("--out", required=True)
    ap.add_argument("--target", default=None)
    ap.add_argument("--budget", type=float, default=60.0)
    ap.add_argument("--wall", type=float, default=0.0)
    ap.add_argument("--case", default=None, help="replay: path of the stored case")
    a = ap.parse_args()

    quiet()
    t0 = time.time()
    shard = json.loads(a.shard)
    mod = load_prop(a.prop)
    if hasattr(mod, "setup_shard"):
        mod.setup_shard(shard)
    result = {"shard": shard, "mode": a.mode}
    def write(res):
        res["wall_s"] = time.time() - t0
        tmp = a.out + ".tmp"
        with open(tmp, "w") as fh:
            json.dump(res, fh)
        os.replace(tmp, a.out)

    if a.mode == "collect":
        col = Collector(keep_smallest=shard.get("kind") == "fuzz")
        shard["_out"] = a.out

        def finish(info):
            result.update(col.to_json())
            result.update(info)
            write(result)

        info = run_collect(mod, shard, a.seed, col, a.wall, finish)
        result.update(col.to_json())
        result.update(info)
    elif a.mode == "shrink":
        result["best"] = run_shrink(mod, shard, a.seed, a.target, a.budget)
        result["target"] = a.target
    else:
        with open(a.case) as fh:
            doc = json.load(fh)
        case = doc["case"] if isinstance(doc, dict) and "case" in doc else doc
        if isinstance(doc, dict) and "shard" in doc:
            shard.update({k: v for k, v in doc["shard"].items() if k not in shard})
        result.update(run_replay(mod, shard, case))
    write(result)


if __name__ == "__main__":
    main()

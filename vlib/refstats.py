"""Closed-form / exactly enumerable statistical references for counting models (DESIGN.md 3.3).

Family A: n_i ~ Pois(mu s_i + b_i), no nuisance parameter (any number of bins/channels).
Family C: on/off problem, n ~ Pois(mu s + gamma b), a ~ Pois(gamma tau), tau = (b/delta)^2.
Everything here is written from the definitions in arXiv:1007.1727; nothing is imported from pyhf.
"""
import math

import mpmath as mp
from scipy.optimize import brentq

mp.mp.dps = 50


def _xlogy(x, y):
    if x == 0:
        return 0.0
    return x * math.log(y) if y > 0 else -math.inf


def pois_nll(n, lam):
    return lam - _xlogy(n, lam) + math.lgamma(n + 1.0)


# --------------------------------------------------------------------------------------------------
class FamilyA:
    """signal-strength-only counting model; s, b, n are flat lists over all bins of all channels."""

    def __init__(self, s, b, bounds=(0.0, 10.0)):
        self.s, self.b = list(map(float, s)), list(map(float, b))
        self.bounds = bounds

    def spec(self, channel_bins=None):
        """pyhf spec; channel_bins e.g. [2, 1] splits the flat bins into channels"""
        channel_bins = channel_bins or [len(self.s)]
        chans, k = [], 0
        for ci, nb in enumerate(channel_bins):
            chans.append({"name": f"ch{ci}", "samples": [
                {"name": "signal", "data": self.s[k:k + nb],
                 "modifiers": [{"name": "mu", "type": "normfactor", "data": None}]},
                {"name": "background", "data": self.b[k:k + nb], "modifiers": []}]})
            k += nb
        return {"channels": chans,
                "parameters": [{"name": "mu", "bounds": [list(self.bounds)], "inits": [min(max(1.0, self.bounds[0]), self.bounds[1])]}]}

    def nll(self, mu, n):
        return sum(pois_nll(ni, mu * si + bi) for si, bi, ni in zip(self.s, self.b, n))

    def score(self, mu, n):
        tot = 0.0
        for si, bi, ni in zip(self.s, self.b, n):
            lam = mu * si + bi
            tot += si * ((ni / lam if lam > 0 else (math.inf if ni > 0 else 0.0)) - 1.0)
        return tot

    def mu_min_domain(self):
        """smallest mu keeping every rate positive"""
        return max((-bi / si for si, bi in zip(self.s, self.b) if si > 0), default=-math.inf)

    def muhat(self, n):
        lo, hi = self.bounds
        lo_eff = max(lo, self.mu_min_domain() + 1e-9)
        if self.score(lo_eff, n) <= 0:
            return lo_eff if lo_eff > lo else lo
        if self.score(hi, n) >= 0:
            return hi
        return brentq(lambda m: self.score(m, n), lo_eff, hi, xtol=1e-14, rtol=1e-14, maxiter=500)

    def fit(self, n):
        m = self.muhat(n)
        return m, self.nll(m, n)

    def asimov(self, mu):
        return [mu * si + bi for si, bi in zip(self.s, self.b)]

    def pars(self, mu):
        return [mu]

    def conditional(self, mu, n):
        return [mu], self.nll(mu, n)

    def unconditional(self, n):
        m, v = self.fit(n)
        return [m], v


class FamilyC:
    """one-bin on/off model (pyhf.simplemodels.uncorrelated_background with one bin)."""

    def __init__(self, s, b, delta, bounds=(0.0, 10.0), gbounds=(1e-10, 10.0)):
        self.s, self.b, self.delta = float(s), float(b), float(delta)
        self.tau = (self.b / self.delta) ** 2
        self.bounds = bounds
        self.gbounds = gbounds

    def spec(self):
        return {"channels": [{"name": "singlechannel", "samples": [
            {"name": "signal", "data": [self.s], "modifiers": [{"name": "mu", "type": "normfactor", "data": None}]},
            {"name": "background", "data": [self.b],
             "modifiers": [{"name": "uncorr_bkguncrt", "type": "shapesys", "data": [self.delta]}]}]}],
            "parameters": [{"name": "mu", "bounds": [list(self.bounds)], "inits": [min(max(1.0, self.bounds[0]), self.bounds[1])]}]}

    def nll(self, mu, g, n, a):
        return pois_nll(n, mu * self.s + g * self.b) + pois_nll(a, g * self.tau)

    def ghat_cond(self, mu, n, a):
        b, tau, s = self.b, self.tau, self.s
        A = (b + tau) * b
        B = (b + tau) * mu * s - (n + a) * b
        C = -a * mu * s
        disc = B * B - 4 * A * C
        if disc < 0:
            disc = 0.0
        roots = [(-B + math.sqrt(disc)) / (2 * A), (-B - math.sqrt(disc)) / (2 * A)]
        ok = [g for g in roots if g > 0 and mu * s + g * b > 0]
        if not ok:
            return None
        g = max(ok)
        return min(max(g, self.gbounds[0]), self.gbounds[1])

    def conditional(self, mu, data):
        n, a = data
        g = self.ghat_cond(mu, n, a)
        if g is None:
            return None, math.inf
        return [mu, g], self.nll(mu, g, n, a)

    def unconditional(self, data):
        n, a = data
        g = a / self.tau
        m = (n - g * self.b) / self.s
        lo, hi = self.bounds
        if lo <= m <= hi and self.gbounds[0] <= g <= self.gbounds[1] and g > 0:
            return [m, g], self.nll(m, g, n, a)
        best = None
        for mb in (lo, hi):
            p, v = self.conditional(mb, data)
            if p is not None and (best is None or v < best[1]):
                best = (p, v)
        # interior in mu with gamma on a bound is not reachable for the generated ranges
        return best

    def asimov(self, mu, data):
        p, _ = self.conditional(mu, data)
        return [mu * self.s + p[1] * self.b, p[1] * self.tau]

    def nominal_aux(self):
        return [self.tau]


# --------------------------------------------------------------------------------------------------
def tmu_like(fam, mu, data):
    """(2 * delta NLL clipped at 0, conditional pars, unconditional pars)"""
    pc, vc = fam.conditional(mu, data)
    pu, vu = fam.unconditional(data)
    return max(0.0, 2 * (vc - vu)), pc, pu, 2 * (vc - vu)


def qmu_like(fam, mu, data):
    t, pc, pu, raw = tmu_like(fam, mu, data)
    return (0.0 if pu[0] > mu else t), pc, pu, raw


def q0(fam, data):
    t, pc, pu, raw = tmu_like(fam, 0.0, data)
    return (0.0 if pu[0] < 0 else t), pc, pu, raw


# --------------------------------------------------------------------------------------------------
def Phi(x):
    return mp.erfc(-mp.mpf(x) / mp.sqrt(2)) / 2


def asymptotic_pvalues(q, qA, test_stat):
    """(CLsb, CLb, CLs) as mpmath numbers from arXiv:1007.1727 section 3"""
    q, qA = mp.mpf(q), mp.mpf(qA)
    sq, sA = mp.sqrt(q), mp.sqrt(qA)
    if test_stat in ("q", "q0") or q <= qA:
        clsb = 1 - Phi(sq)
        clb = 1 - Phi(sq - sA)
        # use the complementary forms to keep precision in the tails
        clsb = Phi(-sq)
        clb = Phi(-(sq - sA))
    else:
        clsb = Phi(-(q + qA) / (2 * sA))
        clb = Phi(-(q - qA) / (2 * sA))
    return clsb, clb, clsb / clb


def expected_band(qA, clipped=False):
    """five (CLsb, CLb, CLs) triples in the order hypotest reports them (-2 sigma ... +2 sigma)"""
    sA = mp.sqrt(mp.mpf(qA))
    out = []
    for n in (2, 1, 0, -1, -2):
        t = mp.mpf(n)
        if clipped and t < -sA:
            t = -sA
        clsb = Phi(-(t + sA))
        clb = Phi(-t)
        out.append((clsb, clb, clsb / clb))
    return out

"""Structured generators for HistFactory specs, workspaces, parameter points and data (DESIGN 3.1).

Construction, not rejection: every draw is a well-formed spec.  Implicit preconditions found by
reading pyhf's callers are built in (positive variations for the multiplicative codes, ``lumi`` as
the only lumi name, shapesys names unique per (channel, sample), staterror shared only inside one
channel, shapefactor shared only between channels of equal width, bounds[0] <= init <= bounds[1]).
"""
import math

from hypothesis import strategies as st

from vlib.refmodel import RefModel

CHANNEL_POOL = ["SR", "CR_b", "CR_a", "zz", "A1"]
SAMPLE_POOL = ["sig", "bkg2", "bkg1", "Zjets"]
NORMFACTORS = ["mu", "nf_bkg"]
NORMSYS = ["sys_a", "sys_b", "shared_x"]
HISTOSYS = ["hsys_a", "shared_x"]
SHAPEFACTORS = ["sf_a", "sf_b"]
ALL_KINDS = ("normfactor", "normsys", "histosys", "lumi", "shapesys", "staterror", "shapefactor")


def nice_float(lo, hi, logscale=False):
    """floats in [lo, hi] rounded to 6 significant digits (keeps replay files readable)."""
    if logscale:
        base = st.floats(math.log(lo), math.log(hi)).map(math.exp)
    else:
        base = st.floats(lo, hi)
    return base.map(lambda v: min(hi, max(lo, float(f"{v:.6g}"))))


@st.composite
def yields(draw, nbins, allow_zero=True, lo=0.5, hi=300.0, min_positive=None):
    out = []
    for _ in range(nbins):
        k = draw(st.integers(0, 19))
        if allow_zero and k < 3:
            out.append(0.0)
        elif k < 6:
            out.append(draw(st.integers(max(1, int(lo)), int(hi))))  # JSON int, not float
        else:
            out.append(draw(nice_float(lo, hi, logscale=True)))
    return out


@st.composite
def specs(
    draw,
    max_channels=3,
    max_bins=4,
    max_samples=3,
    kinds=ALL_KINDS,
    allow_zero=True,
    wellposed=False,
    overrides=True,
    histosys_rel=0.3,
    free_histosys=False,
    mod_prob=0.45,
    force_poi=False,
    all_samples_everywhere=False,
):
    """A model spec {'channels': [...], 'parameters': [...]}.

    wellposed: every bin has a strictly positive, POI-independent background, variations are small
    enough that rates stay positive inside the default bounds, no zero yields / uncertainties.
    """
    if wellposed:
        allow_zero = False
        histosys_rel = min(histosys_rel, 0.15)
    nch = draw(st.integers(1, max_channels))
    cnames = draw(st.permutations(CHANNEL_POOL))[:nch]
    nbins = {c: draw(st.integers(1, max_bins)) for c in cnames}
    if wellposed:
        nbk = draw(st.integers(1, max(1, max_samples - 1)))
        spool = ["sig"] + list(draw(st.permutations(["bkg2", "bkg1", "Zjets"]))[:nbk])
    else:
        nsamp_pool = draw(st.integers(1, max(1, max_samples)))
        spool = list(draw(st.permutations(SAMPLE_POOL))[:nsamp_pool])
    sf_width = {}
    orient = {}  # wellposed: one orientation per systematic (all bins / samples move the same way)
    channels = []
    has_lumi = False
    used_poi = False
    for c in cnames:
        if all_samples_everywhere:
            present = list(spool)
        else:
            k = draw(st.integers(1, len(spool)))
            present = list(draw(st.permutations(spool))[:k])
        if wellposed:
            # at least one background sample in every channel, the signal in the first channel
            if not any(s != "sig" for s in present):
                present.append([s for s in spool if s != "sig"][0])
            if c == cnames[0] and "sig" not in present:
                present.append("sig")
        present = list(draw(st.permutations(present)))
        stat_members = []
        if "staterror" in kinds and draw(st.integers(0, 99)) < 45:
            elig = [s for s in present if not (wellposed and s == "sig")]
            if elig:
                k = draw(st.integers(1, len(elig)))
                stat_members = list(draw(st.permutations(elig))[:k])
        samples = []
        for s in present:
            nb = nbins[c]
            is_sig = wellposed and s == "sig"
            data = draw(yields(nb, allow_zero=allow_zero,
                               lo=(5.0 if wellposed and not is_sig else 0.5),
                               hi=(30.0 if is_sig else 300.0)))
            mods = []

            def p(prob=mod_prob):
                return draw(st.integers(0, 99)) < int(prob * 100)

            if "normfactor" in kinds:
                if is_sig or (force_poi and s == "sig"):
                    mods.append({"name": "mu", "type": "normfactor", "data": None})
                    used_poi = True
                else:
                    for nf in NORMFACTORS:
                        if wellposed and nf == "mu":
                            continue
                        if p(0.3 if nf != "mu" else 0.5):
                            mods.append({"name": nf, "type": "normfactor", "data": None})
                            used_poi = used_poi or nf == "mu"
            if "normsys" in kinds:
                for ns in NORMSYS:
                    if p(0.3):
                        if wellposed:
                            lo = draw(nice_float(0.7, 0.98))
                            hi = draw(nice_float(1.02, 1.3))
                            if ns not in orient:
                                orient[ns] = draw(st.integers(0, 9)) != 0
                            if not orient[ns]:
                                lo, hi = hi, lo
                        else:
                            lo = draw(nice_float(0.5, 1.5))
                            hi = draw(nice_float(0.5, 1.5))
                        mods.append({"name": ns, "type": "normsys", "data": {"lo": lo, "hi": hi}})
            if "histosys" in kinds:
                for hs in HISTOSYS:
                    if p(0.3):
                        lo_d, hi_d = [], []
                        if wellposed and hs not in orient:
                            orient[hs] = draw(st.integers(0, 9)) != 0
                        for v in data:
                            if free_histosys:
                                lo_d.append(draw(nice_float(-50.0, 350.0)))
                                hi_d.append(draw(nice_float(-50.0, 350.0)))
                            else:
                                if wellposed:
                                    # opposite-side variations: a same-side pair makes the likelihood
                                    # non-monotonic in alpha and the fit multi-modal
                                    r1 = -draw(nice_float(0.02, histosys_rel))
                                    r2 = draw(nice_float(0.02, histosys_rel))
                                    if not orient[hs]:
                                        r1, r2 = r2, r1
                                else:
                                    r1 = draw(nice_float(-histosys_rel, histosys_rel))
                                    r2 = draw(nice_float(-histosys_rel, histosys_rel))
                                # zero-yield bins stay structurally zero (no rounding-sensitive rates)
                                lo_d.append(float(f"{v + r1 * v:.6g}"))
                                hi_d.append(float(f"{v + r2 * v:.6g}"))
                        mods.append({"name": hs, "type": "histosys",
                                     "data": {"lo_data": lo_d, "hi_data": hi_d}})
            if "lumi" in kinds and p(0.25):
                mods.append({"name": "lumi", "type": "lumi", "data": None})
                has_lumi = True
            if "shapesys" in kinds and p(0.3) and not is_sig:
                unc = []
                for v in data:
                    if allow_zero and draw(st.integers(0, 9)) == 0:
                        unc.append(0.0)
                    else:
                        scale = v if v > 0 else 1.0
                        unc.append(float(f"{scale * draw(nice_float(0.02, 0.4)):.6g}"))
                mods.append({"name": f"shape_{c}_{s}", "type": "shapesys", "data": unc})
            if s in stat_members:
                unc = []
                for v in data:
                    if allow_zero and draw(st.integers(0, 9)) == 0:
                        unc.append(0.0)
                    else:
                        scale = v if v > 0 else 1.0
                        unc.append(float(f"{scale * draw(nice_float(0.02, 0.3)):.6g}"))
                mods.append({"name": f"staterror_{c}", "type": "staterror", "data": unc})
            if "shapefactor" in kinds and not is_sig:
                for sf in SHAPEFACTORS:
                    if sf_width.get(sf, nb) == nb and p(0.15):
                        sf_width[sf] = nb
                        mods.append({"name": sf, "type": "shapefactor", "data": None})
            mods = list(draw(st.permutations(mods)))
            samples.append({"name": s, "data": data, "modifiers": mods})
        channels.append({"name": c, "samples": samples})
    # a model needs at least one parameter
    if not any(s["modifiers"] for c in channels for s in c["samples"]):
        channels[0]["samples"][0]["modifiers"].append(
            {"name": "mu", "type": "normfactor", "data": None})
    spec = {"channels": channels}
    params = []
    if has_lumi:
        lum = draw(st.sampled_from([1.0, 1.0, 2.0, 0.5, 3.5]))
        rel = draw(nice_float(0.01, 0.1))
        ent = {"name": "lumi", "auxdata": [lum], "sigmas": [float(f"{lum * rel:.6g}")],
               "inits": [lum], "bounds": [[0.0, 10.0 * lum]]}
        if draw(st.integers(0, 5)) == 0:
            ent["fixed"] = True
        params.append(ent)
    spec["parameters"] = params
    if overrides:
        ref = RefModel(spec)
        for name in sorted(ref.params):
            if name == "lumi" or draw(st.integers(0, 99)) >= 30:
                continue
            params.append(draw(override_for(ref.params[name], wellposed=wellposed)))
        spec["parameters"] = list(draw(st.permutations(params)))
    return spec


@st.composite
def override_for(draw, p, wellposed=False):
    ent = {"name": p.name}
    keys = ["inits", "bounds", "fixed"]
    if p.constraint is not None:
        keys.append("auxdata")
    if p.kinds == {"staterror"}:
        keys.append("sigmas")
    if p.kinds == {"shapesys"}:
        keys.append("factors")
    chosen = [k for k in keys if draw(st.booleans())] or [draw(st.sampled_from(keys))]
    n = p.n
    if p.kinds <= {"normsys", "histosys"}:
        lo, hi, mid = -5.0, 5.0, 0.0
    elif p.kinds & {"normfactor", "shapefactor"}:
        lo, hi, mid = 0.0, 10.0, 1.0
    else:
        lo, hi, mid = 1e-10, 10.0, 1.0
    bounds = None
    if "bounds" in chosen:
        bounds = []
        for _ in range(n):
            b0 = draw(nice_float(lo, mid - 0.05 if mid - 0.05 > lo else lo)) if lo < mid else lo
            b1 = draw(nice_float(mid + 0.05, hi))
            bounds.append([b0, b1])
        ent["bounds"] = bounds
    if "inits" in chosen:
        inits = []
        for k in range(n):
            b0, b1 = bounds[k] if bounds else (lo, hi)
            inits.append(draw(nice_float(max(b0, mid - 0.5), min(b1, mid + 0.5))))
        ent["inits"] = inits
    if "fixed" in chosen:
        ent["fixed"] = draw(st.booleans()) if not wellposed else False
    if "auxdata" in chosen:
        if p.constraint == "poisson":
            ent["auxdata"] = [float(f"{f * draw(nice_float(0.8, 1.2)):.6g}") for f in p.factors]
        else:
            ent["auxdata"] = [float(f"{mid + draw(nice_float(-0.3, 0.3)):.6g}") for _ in range(n)]
    if "sigmas" in chosen:
        ent["sigmas"] = [draw(nice_float(0.02, 0.5)) for _ in range(n)]
    if "factors" in chosen:
        ent["factors"] = [draw(nice_float(2.0, 400.0, logscale=True)) for _ in range(n)]
    return ent


# --------------------------------------------------------------------------------------------------
# parameter points and data
# --------------------------------------------------------------------------------------------------

_ALPHA_SPECIAL = [0.0, 1.0, -1.0, math.nextafter(1.0, 2.0), math.nextafter(1.0, 0.0),
                  math.nextafter(-1.0, -2.0), math.nextafter(-1.0, 0.0), 1e-8, -1e-8]


def alphas(max_abs=5.0):
    return st.one_of(
        st.sampled_from(_ALPHA_SPECIAL),
        nice_float(-1.0, 1.0),
        nice_float(1.0, max_abs),
        nice_float(1.0, max_abs).map(lambda v: -v),
    )


@st.composite
def points(draw, ref, positive=True, at_init_prob=0.2, max_alpha=5.0, in_bounds=False):
    """{name: [values]} for every parameter of the reference model."""
    out = {}
    for name in sorted(ref.params):
        p = ref.params[name]
        vals = []
        for k in range(p.n):
            if draw(st.integers(0, 99)) < int(at_init_prob * 100):
                v = p.inits[k]
            elif p.kinds <= {"normsys", "histosys"}:
                v = draw(alphas(max_alpha))
                if in_bounds:
                    v = min(max(v, p.bounds[k][0]), p.bounds[k][1])
            elif p.kinds == {"lumi"}:
                v = float(f"{p.inits[0] * draw(nice_float(0.7, 1.3)):.6g}")
            elif p.kinds & {"normfactor", "shapefactor"}:
                v = draw(st.one_of(nice_float(0.0 if not positive else 0.05, 4.0),
                                   st.sampled_from([1.0, 0.0 if not positive else 0.5, 2.0])))
            else:
                v = draw(nice_float(0.3, 2.5))
            if in_bounds:
                v = min(max(v, p.bounds[k][0]), p.bounds[k][1])
            vals.append(v)
        out[name] = vals
    return out


@st.composite
def main_data(draw, ref, expected=None):
    """{channel: [counts]}: integers near the expectation, the expectation itself, zeros, large."""
    out = {}
    for c in ref.channels:
        vals = []
        for b in range(ref.nbins[c]):
            e = expected[c][b] if expected is not None else 50.0
            e = e if (e == e and 0 < e < 1e7) else 10.0
            k = draw(st.integers(0, 9))
            if k == 0:
                vals.append(0.0)
            elif k == 1:
                vals.append(float(f"{e:.6g}"))  # Asimov-like, non-integer
            elif k == 2:
                vals.append(float(draw(st.integers(0, 5000))))
            else:
                w = max(3.0, 3.0 * math.sqrt(e))
                vals.append(float(max(0, round(e + draw(nice_float(-w, w))))))
        out[c] = vals
    return out


@st.composite
def aux_data(draw, ref, perturb_prob=0.7):
    """{name: [values]} drawn independently of the parameters (exposes mis-paired terms)."""
    out = {}
    for p in ref.constrained():
        vals = []
        for k in range(p.n):
            nom = p.auxdata[k]
            if draw(st.integers(0, 99)) < int(perturb_prob * 100):
                if p.constraint == "poisson":
                    v = float(f"{nom * draw(nice_float(0.5, 1.6)):.6g}")
                    if draw(st.booleans()):
                        v = float(round(v))
                else:
                    sig = p.sigmas[k] if p.sigmas is not None else 1.0
                    v = float(f"{nom + sig * draw(nice_float(-2.5, 2.5)):.6g}")
            else:
                v = nom
            vals.append(v)
        out[p.name] = vals
    return out


# --------------------------------------------------------------------------------------------------
# workspaces
# --------------------------------------------------------------------------------------------------


@st.composite
def workspaces(draw, max_measurements=3, **spec_kwargs):
    spec = draw(specs(**spec_kwargs))
    ref = RefModel(spec)
    base_params = spec.pop("parameters", [])
    scalars = sorted(n for n, p in ref.params.items() if p.n == 1 and p.kinds != {"lumi"})
    nfs = [n for n in scalars if ref.params[n].kinds == {"normfactor"}]
    nm = draw(st.integers(1, max_measurements))
    measurements = []
    for i in range(nm):
        if i == 0:
            params = base_params
        else:
            params = [e for e in base_params if e["name"] == "lumi"]
            for name in sorted(ref.params):
                if name != "lumi" and draw(st.integers(0, 99)) < 25:
                    params.append(draw(override_for(ref.params[name])))
            params = list(draw(st.permutations(params)))
        poi_pool = nfs or scalars
        poi = draw(st.sampled_from(poi_pool)) if poi_pool else ""
        measurements.append({"name": ["meas", "alt", "third"][i],
                             "config": {"poi": poi, "parameters": params}})
    nominal = ref.expected_main(ref.inits() if "lumi" not in ref.params or True else {})
    obs = []
    for c in draw(st.permutations(ref.channels)):
        vals = []
        for b in range(ref.nbins[c]):
            e = nominal[c][b]
            e = e if (e == e and 0 <= e < 1e7) else 10.0
            w = max(3.0, 2.0 * math.sqrt(e))
            vals.append(float(max(0, round(e + draw(nice_float(-w, w))))))
        obs.append({"name": c, "data": vals})
    return {"channels": spec["channels"], "measurements": measurements,
            "observations": obs, "version": "1.0.0"}


def model_spec_of(ws, measurement=0):
    """The {'channels', 'parameters'} spec a workspace measurement stands for."""
    m = ws["measurements"][measurement]
    return {"channels": ws["channels"], "parameters": m["config"]["parameters"]}

#!/bin/sh
# Offline, idempotent: make sure hypothesis is importable next to the repository's packages.
set -e
cd "$(dirname "$0")"
if ! /venv/bin/python -c "import hypothesis" 2>/dev/null; then
  /venv/bin/pip install --no-index --find-links /opt/veriftools/wheels hypothesis
fi
# atheris (coverage-guided shards of C12/C16/C17/C20) goes beside the checks, not into /venv; without it those
# shards fall back to plain random generation and say so in the evidence
if ! PYTHONPATH=.deps /venv/bin/python -c "import atheris" 2>/dev/null; then
  /venv/bin/pip install -q --no-index --find-links /opt/veriftools/wheels --target .deps atheris || echo "setup: atheris not installable, fuzz shards will fall back"
fi
/venv/bin/python -c "import hypothesis, mpmath, numpy, scipy, pyhf; print('setup ok: hypothesis', hypothesis.__version__, 'pyhf from', pyhf.__file__)"
mkdir -p evidence .work

#!/bin/sh
# usage: tools/run_all_quick.sh [seed] [--no-evidence]   - every quick check once, one summary line each
SEED=${1:-1}; shift
for id in C01 C02 C03 C04 C05 C06 C07 C08 C09 C10 C11 C12 C13 C14 C15 C16 C17 C18 C19 C20; do
  VERIF_SEED=$SEED ./check $id --tier quick "$@" > .work/all_$id.log 2>&1
  echo "$id rc=$? $(grep '^\[' .work/all_$id.log | tail -1)"
  grep "violation signature\|HARNESS" .work/all_$id.log | head -4
done

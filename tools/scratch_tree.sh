#!/bin/sh
# usage: tools/scratch_tree.sh <dir> [<commit>]   - scratch worktree of /repo usable with VERIF_PYHF_SRC=<dir>/src
set -e
git -C /repo worktree add -q "$1" "${2:-HEAD}"
cp /repo/src/pyhf/_version.py "$1/src/pyhf/_version.py"
echo "$1"

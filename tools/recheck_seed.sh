#!/bin/sh
# usage: tools/recheck_seed.sh <seeded-dir-name> [check-id ...]  - apply a kept seeded change to a scratch worktree
# (never to /repo) and run our quick checks against it; prints exit code and violation signatures
D=$1; shift
ID=$(echo $D | cut -c1-3)
CHECKS=${*:-$ID}
WT=/tmp/recheck_wt_$D
cd /verif
rm -rf $WT; git -C /repo worktree prune
tools/scratch_tree.sh $WT >/dev/null 2>&1
git -C $WT apply /verif/seeded/$D/patch.diff || { echo "$D: patch does not apply"; git -C /repo worktree remove --force $WT; exit 2; }
for C in $CHECKS; do
  VERIF_PYHF_SRC=$WT/src ./check $C --tier quick --no-evidence > /tmp/recheck_$D_$C.log 2>&1; rc=$?
  echo "$D vs $C: exit=$rc $(grep -c 'violation signature' /tmp/recheck_$D_$C.log) signatures: $(grep 'violation signature' /tmp/recheck_$D_$C.log | head -3 | sed 's/.*signature: //' | tr '\n' ' ')"
  rm -f /tmp/recheck_$D_$C.log
done
git -C /repo worktree remove --force $WT
rm -rf replays/*/new

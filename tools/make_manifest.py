#!/venv/bin/python
"""Regenerates /verif/MANIFEST.json from the table below (keeps the manifest valid at all times)."""
import json
import os

ROOT = os.path.dirname(os.path.dirname(os.path.abspath(__file__)))

CHECKS = {
    # id: (level, technique, level text, level note, design ref)
    "C01": ("exploration",
            "Hypothesis-generated specs and parameter points vs. an independent loop-based reference model (differential oracle) + metamorphic 'untouched sample' relation",
            "Generated-input search: thousands of structurally varied specs x points x interpolation codes x 4 backends x clipping x batching compared bin by bin with a name-keyed reference implementation of the HistFactory rate formula. Refutes index/mask/gather bookkeeping errors; does not prove absence beyond the explored sizes.",
            "Trusted: vlib/refmodel.py transcription of the rate formula; parameter layout as reported by the model (C12 checks its consistency); sizes <= 4 channels x 6 bins.",
            "DESIGN.md#c01"),
    "C03": ("exploration",
            "Hypothesis boundary-biased alphas + exhaustive breakpoint grid vs. independent scalar formulae (linear-solve coefficients), anchors, continuity across float neighbours, jax-autodiff C1/C2, fast-vs-slow differential, call-history independence",
            "Generated-input search over (code, alpha0, histogram sets, alpha sets incl. extrapolation / breakpoints / float neighbours, call histories, backend x precision); every clause of the statement is its own executable sub-oracle. Dense sampling, not a proof over all real alpha.",
            "Trusted: the scalar reference formulae in vlib/refmodel.py; jax autodiff for derivative continuity; 32-bit cases compare after rounding inputs to float32 with tolerance x 1e5.",
            "DESIGN.md#c03"),
    "C04": ("exploration",
            "Hypothesis-generated argument vectors (tails, cancellation class, lambda=0/denormal, non-integer n) vs. 50-digit mpmath oracle on 4 backends x 2 precisions; exp/log and distribution-object consistency relations",
            "Generated-input search with an exact-arithmetic oracle and a tolerance of 64 units of rounding of the terms involved; refutes accuracy loss anywhere in the sampled domain, does not prove it for all arguments.",
            "Trusted: mpmath; accuracy of third-party special functions is inherited; denormal rates/counts may be flushed to zero by XLA/TF (accepted as the lambda=0 limit).",
            "DESIGN.md#c04"),
    "C02": ("exploration",
            "Hypothesis-generated specs/overrides/points/main data and *independent* auxiliary data vs. a name-keyed reference log-likelihood; additivity (main+constraint=full) and exp/log relations",
            "Generated-input search: the auxiliary data are drawn independently of the parameters, which is what exposes mis-paired or permuted constraint terms; every constraint family and their interleavings in creation order are generated.",
            "Trusted: vlib/refmodel.py likelihood template; reported auxdata_order as the pairing contract; tolerance 1e-10*(1+sum|terms|).",
            "DESIGN.md#c02"),
    "C10": ("exploration",
            "Hypothesis-generated specs x batch sizes 1..8 with pairwise distinct rows: differential batched-vs-unbatched, reference model, exact non-interference (row replacement) and shape checks",
            "Generated-input search over spec shapes with distinct rows; cross-row leakage is tested exactly (bit-identical other rows after replacing one row).",
            "Trusted: unbatched model as differential reference plus vlib/refmodel.py; tolerance 1e-12*(1+sum|terms|).",
            "DESIGN.md#c10"),
    "C12": ("exploration",
            "Hypothesis-generated workspaces with override sets and list permutations: structural invariants of the configuration, independent parameter table (defaults/overrides), Workspace.data / Workspace.build round trips, input non-mutation, permutation invariance",
            "Generated-input search over workspace shapes, override sets and listing orders; each clause of the statement is a separate executable invariant with its own signature. Part of the budget is a coverage-guided campaign: atheris/libFuzzer mutates the byte strings that the same Hypothesis strategy decodes into cases, with pyhf instrumented for coverage (shards named fuzz*).",
            "Trusted: documented per-type defaults transcribed in vlib/refmodel.py; random (not exhaustive) permutations.",
            "DESIGN.md#c12"),
    "C20": ("fault_enumeration",
            "fault injection: generated well-formed spec + one (or two) structural faults from an explicit 12-class catalogue at generated positions, plus exhaustive (fault x position) enumeration on a fixed spec; oracle = refusal with a pyhf exception type at both entry points",
            "Fault enumeration: every catalogue class is injected at every applicable position of a fixed 2-channel spec (exhaustive part) and at generated positions of thousands of generated specs; acceptance or a foreign exception type is a violation with signature C20/<fault_variant>/<entry point>/<outcome>. Part of the budget is a coverage-guided campaign: atheris/libFuzzer mutates the byte strings that the same Hypothesis strategy decodes into cases, with pyhf instrumented for coverage (shards named fuzz*).",
            "Trusted: the fault injectors produce genuinely inconsistent specs (pairs that can cancel are discarded by construction); the shapefactor-width class is a recorded known finding.",
            "DESIGN.md#c20"),
    "C17": ("fault_enumeration",
            "Hypothesis-generated patch-set documents (internal-word names, mixed-type value tuples, injected duplicates, stateful RFC 6902 operation lists) + per-case exhaustive single-leaf corruption of the verified workspace; oracles: accept iff distinct, exact lookup, digest key-order invariance / corruption sensitivity, independent RFC 6902 applier",
            "Fault enumeration: for every generated verified workspace every single-leaf corruption (number +-1 ulp/+1, string edit, element removed/duplicated/swapped, key renamed) is enumerated and must change the digest and fail verify(); document-level properties are searched with Hypothesis. Part of the budget is a coverage-guided campaign: atheris/libFuzzer mutates the byte strings that the same Hypothesis strategy decodes into cases, with pyhf instrumented for coverage (shards named fuzz*).",
            "Trusted: vlib/jsonpatch_ref.py (RFC 6902) and hashlib; 1 and 1.0 are the same value-tuple entry.",
            "DESIGN.md#c17"),
    "C16": ("exploration",
            "Hypothesis-generated workspace pairs with a generated overlap class x join mode x merge flag, prune/rename selections and permutations; oracles: independent model of the documented join semantics, likelihood factorisation (metamorphic, by parameter name), independently filtered spec, inverse rename, sort canonicity, schema validity, input non-mutation",
            "Generated-input search over overlap patterns (disjoint / identical / conflicting channels, observations, measurements, parameter configs, versions) crossed with all join modes; results are compared structurally against an independent join model and numerically through the likelihood of inputs and outputs. Part of the budget is a coverage-guided campaign: atheris/libFuzzer mutates the byte strings that the same Hypothesis strategy decodes into cases, with pyhf instrumented for coverage (shards named fuzz*).",
            "Trusted: the join model in props/c16.py written from the docstrings; likelihood relations checked at one generated point per case (1e-9 relative); factorisation checked for join='outer' (left/right outer are documented as unsafe).",
            "DESIGN.md#c16"),
    "C06": ("exploration",
            "Hypothesis-generated closed-form counting families and small well-posed models x data on both sides of the tested hypothesis x 5 statistics x POI lower bound x optimizer; oracles: definition re-evaluated with the reference NLL at the returned fitted parameters (one-sided rules on the returned POI), closed-form profile likelihood, exact conditional POI",
            "Generated-input search that steers the fitted POI above / below / at the tested value and onto the lower bound, so that every zeroing branch and the clip at zero are taken with a value check.",
            "Trusted: vlib/refmodel.py NLL, vlib/refstats.py closed forms; closed-form tolerance 1e-3 + 1e-5 q (4e-3 for minuit); near the zeroing seam either branch is accepted.",
            "DESIGN.md#c06"),
    "C07": ("exploration",
            "Hypothesis-generated (q, q_A) incl. the seam q=q_A and its float neighbours, injected by test-time patching of two internal functions, driven through the real calculator code; oracle: 50-digit mpmath formulae of arXiv:1007.1727, ordering invariants, clipped-vs-unclipped identity",
            "Generated-input search over the (q, q_A) plane for 3 statistics x 2 base distributions x 4 backends with an exact-arithmetic oracle and rounding-aware tolerances.",
            "Trusted: mpmath; injection relies on pyhf.infer.utils.get_test_stat and pyhf.infer.calculators.generate_asimov_data (missing name = harness error, exit 2).",
            "DESIGN.md#c07"),
    "C08": ("exploration",
            "Hypothesis-generated closed-form counting families x observed counts x tested mu x statistic x backend/optimizer with all 16 return-flag combinations enumerated per case; oracle: closed-form q and q_A through the exact asymptotic formulae with a +-delta sensitivity envelope, documented tuple layout, closed-form Asimov data, refusal cases",
            "Generated-input search with an analytic end-to-end oracle for CLs / p0 (observed and 5-point band) and exhaustive enumeration of the 16 flag combinations in every asymptotic case.",
            "Trusted: vlib/refstats.py; fits are run at tight optimiser tolerance (SLSQP ftol 1e-10, MIGRAD tol 1e-4) so that the envelope (delta 1e-4 / 1e-3 on 2NLL) detects wiring errors rather than optimiser noise; toy-based calls are checked for layout only.",
            "DESIGN.md#c08"),
    "C09": ("exploration",
            "Hypothesis-generated closed-form counting families x data x level in (0.001, 0.5) x {toms748 scan, generated linear grids} x forwarded options; oracles: the check's own hypotest calls bracket the passed level at limit*(1-+eps) for all six curves, closed-form root of the CLs curve, crossing-cell membership and linear interpolation for grids, ordering, stored results == fresh hypotest",
            "Generated-input search in which the level is a generated quantity (never the default alone), with an independent root of the analytic CLs curve as oracle.",
            "Trusted: vlib/refstats.py; tight optimiser tolerance; only curves crossing the level inside the scanned range are checked; the NaN-at-mu=0 failure of the automatic scan is a recorded known finding.",
            "DESIGN.md#c09"),
    "C13": ("exploration",
            "Hypothesis-generated well-posed specs x points in every interpolation regime (breakpoints, float neighbours) x data x {jax, pytorch, tensorflow} x do_stitch x fixed masks; oracle: Richardson-extrapolated finite differences of the independent reference NLL (one-sided at breakpoints, subgradient interval at kinks), value agreement with the non-differentiating path",
            "Generated-input search comparing every gradient component with a derivative of an independently implemented objective; no test in the suite compares a gradient with a derivative.",
            "Trusted: vlib/refmodel.py NLL; finite differences accurate to ~1e-8 relative, tolerance 2e-6 (2e-5 at breakpoints); code1 at exactly alpha=0 is a recorded known finding (excluded by construction, 3 stored replays).",
            "DESIGN.md#c13"),
    "C05": ("exploration",
            "Hypothesis-generated closed-form families and well-posed general models x data x init/bounds/fixed masks x {fit, fixed_poi_fit} x optimizer x backend with every do_stitch/do_grad combination run per case; oracles: feasibility, exact fixed values, reported objective == 2*reference NLL, one-sided optimality vs closed form / sampled feasible points, configuration independence",
            "Generated-input search with an independent objective and independent optima (closed forms); optimality is refutable only ('any other feasible point' is sampled).",
            "Trusted: vlib/refmodel.py NLL, vlib/refstats.py closed forms; tol_opt 2e-4 (scipy) / 2e-3 (minuit) on 2NLL; two recorded known findings (stitching with every parameter fixed; one SLSQP false-convergence input).",
            "DESIGN.md#c05"),
    "C14": ("exploration",
            "Hypothesis-generated sample vectors with ties (exact tail-fraction oracle), generated specs/points with seeded sampling (shape, integrality, two moments at 6 standard errors), and closed-form counting families where the toy CL_s+b / CL_b are compared with the exact tail probability obtained by finite summation over Poisson counts at the conditional best-fit nuisances",
            "Generated-input search with exact reference probabilities; statistical comparisons use 6 standard errors of exactly known sampling distributions and seeded RNGs, so a run is reproducible and the false-alarm probability is < 1e-6.",
            "Trusted: vlib/refstats.py closed forms; scipy.stats.poisson.pmf for the exact sums; distributional claims are tested through two moments and exact tail masses only.",
            "DESIGN.md#c14"),
    "C15": ("exploration",
            "metamorphic testing: Hypothesis-generated sensitive well-posed models x data x compositions (depth 1-3) of seven likelihood-preserving rewrites; relations: maximised 2NLL (minus log 2pi per added constraint), test statistic, observed and expected CLs unchanged; covariance under signal rescaling; agreement of a second backend / minuit",
            "Generated-input search over models and rewrite compositions where no stored oracle exists; the relation between two inference runs is the oracle.",
            "Trusted: each rewrite preserves the likelihood by construction (props/c15.py); fits at tight tolerance, best of {scipy, minuit} per side to remove optimiser path dependence on multi-modal likelihoods; configuration comparisons that end in different local minima of the same function are counted, not reported.",
            "DESIGN.md#c15"),
    "C11": ("exploration",
            "model-based history generation: Hypothesis-generated operation lists (switch backend/precision/optimizer, create model/interpolator/viewers, delete + gc, evaluate, fit) with an invariant after every step: the old object equals a freshly constructed one under the current backend, tensors are of the current backend's type, get_backend() reflects the last switch, no dead callback references, no exception",
            "Generated histories (shrunk as one value) over 4 backends x 2 precisions x 2 optimizers interleaved with object creation, deletion and evaluation; oracle = differential against a fresh object at every step.",
            "Trusted: a freshly constructed object is correct under the current backend (C01/C02 check that); tensorflow and jax histories run in dedicated shards; default=True switches are out of scope.",
            "DESIGN.md#c11"),
    "C18": ("exploration",
            "model-based history generation: Hypothesis-generated exportable workspaces and export/import operation lists over two directories; round-trip oracle (structure, modifier data, lumi settings, constant flags) and likelihood equality at a generated point for every measurement; the import must reflect the latest export into the directory",
            "Generated round trips with lumi != 1, custom normfactor settings, fixed parameters, several measurements, integer and negative yields, and re-exports into used directories (stale-cache histories).",
            "Trusted: vlib/refmodel.py for the evaluation point only (both likelihoods are evaluated by pyhf); exportable domain = what HistFactory XML can express (stated in the check); the harness never clears the file cache.",
            "DESIGN.md#c18"),
    "C19": ("exploration",
            "Hypothesis-generated workspaces / patches / patch sets x one subcommand per case x generated option combinations x stdin-or-file input x stdout-or-file output, driven in-process with click's CliRunner; differential oracle = the corresponding library call written independently in the check; file output == stdout output",
            "Generated-input search crossing options that the suite never crosses (measurement x patch x test statistic x optimizer settings x backend; join x merge; algorithms x format); an option that is parsed but not forwarded produces a value mismatch.",
            "Trusted: the library calls themselves (checked by C05-C09, C16-C18); in-process CliRunner only; inspect --measurement (undocumented, unused upstream) is compared for its default behaviour only.",
            "DESIGN.md#c19"),
}

NOT_YET = "not claimed"


def main():
    props = [json.loads(l) for l in open(os.path.join(ROOT, "properties.jsonl")) if l.strip()]
    checks = []
    na = []
    for p in props:
        pid = p["id"]
        if pid in CHECKS and os.path.exists(os.path.join(ROOT, "props", f"{pid.lower()}.py")):
            level, tech, text, note, ref = CHECKS[pid]
            checks.append({
                "property_id": pid,
                "quick_cmd": f"./check {pid} --tier quick",
                "thorough_cmd": f"./check {pid} --tier thorough",
                "evidence_file": f"evidence/{pid}.json",
                "replay_cmd_template": f"./check {pid} --replay {{path}}",
                "engine": "vlib-runner",
                "level_claimed": {"category": level, "text": text, "design_ref": ref},
                "level_note": note,
                "technique": tech,
            })
        else:
            na.append({"property_id": pid, "reason": NOT_YET})
    man = {
        "version": 1,
        "setup_cmd": "./setup.sh",
        "hooks": {
            "guard": "PYHF_VERIF",
            "enable": "no instrumentation hooks are needed: checks import pyhf from /repo/src (editable install in /venv, or VERIF_PYHF_SRC) and patch internals at test time only (C07)",
            "baseline_off_cmd": "cd /repo && /venv/bin/python -m pytest -ra -q -p no:cacheprovider --timeout=900 --continue-on-collection-errors",
            "source_commits": [],
            "add_only": True,
        },
        "engines": [{
            "name": "vlib-runner",
            "path": "vlib/runner.py",
            "serves_properties": [c["property_id"] for c in checks],
            "kind_free_text": "property-based testing: Hypothesis strategies sharded over 16 fresh subprocesses, collect-then-shrink with categorical failure signatures, exhaustive enumeration for finite sub-spaces, JSON replay files",
        }],
        "checks": checks,
        "notes": "Single entry point ./check <ID> --tier quick|thorough [--replay F]; VERIF_SEED selects the seed; exit 0 held / 1 VIOLATION / 2 harness error. known_findings.json lists recorded and fixed defects.",
        "not_applicable": na,
    }
    with open(os.path.join(ROOT, "MANIFEST.json"), "w") as fh:
        json.dump(man, fh, indent=1)
    print(f"MANIFEST.json: {len(checks)} checks, {len(na)} not claimed")


if __name__ == "__main__":
    main()

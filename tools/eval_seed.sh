#!/bin/sh
# usage: tools/eval_seed.sh C07 [check-id ...]   - evaluate a seeded change living in /tmp/seed/<id> against demo + our checks
ID=$1; shift
CHECKS=${*:-$ID}
ROOT=${SEEDROOT:-/tmp/seed}
WT=$ROOT/$ID; OUT=$ROOT/out_$ID
echo "== $ID: diff stat"; git -C $WT diff --stat | tail -3
echo "== demo WITH change (expect exit 1)"; (cd $WT && PYTHONPATH=$WT/src timeout 300 /venv/bin/python $OUT/demo.py >$ROOT/demo_$ID.with 2>&1; echo "exit=$?"; tail -3 $ROOT/demo_$ID.with | cut -c1-200)
echo "== demo WITHOUT change (expect exit 0)"; (cd /repo && PYTHONPATH=/repo/src timeout 300 /venv/bin/python $OUT/demo.py >$ROOT/demo_$ID.without 2>&1; echo "exit=$?")
for C in $CHECKS; do
  echo "== our check $C against the change (expect exit 1)"
  (cd /verif && VERIF_PYHF_SRC=$WT/src ./check $C --tier quick --no-evidence > $ROOT/check_${ID}_$C.log 2>&1; echo "exit=$?"; grep -v condarc $ROOT/check_${ID}_$C.log | grep "signature\|^\[" | cut -c1-220 | head -8)
done

#!/venv/bin/python
"""Collect an evaluated seeded change into /verif/seeded/<name>/ (patch.diff, demo.py, notes.md, meta.json)."""
import glob, json, os, re, subprocess, sys
name = sys.argv[1]            # e.g. C07
prop = name[:3]
root = os.environ.get("SEEDROOT", "/tmp/seed")
suffix = os.environ.get("SEEDSUFFIX", "")          # e.g. "b" for the second round
wt, out = f"{root}/{name}", f"{root}/out_{name}"
dst = f"/verif/seeded/{name}{suffix}"
os.makedirs(dst, exist_ok=True)
diff = subprocess.run(["git", "-C", wt, "diff"], capture_output=True, text=True).stdout
open(f"{dst}/patch.diff", "w").write(diff)
for f in ("demo.py", "notes.md"):
    if os.path.exists(f"{out}/{f}"):
        open(f"{dst}/{f}", "w").write(open(f"{out}/{f}").read())
caught = {}
for log in glob.glob(f"{root}/check_{name}_*.log"):
    chk = log.rsplit("_", 1)[1][:-4]
    txt = open(log).read()
    sigs = sorted(set(re.findall(r"violation signature: (\S+)", txt)))
    summ = [l for l in txt.splitlines() if l.startswith("[")]
    caught[chk] = {"detected": bool(sigs), "signatures": sigs[:12], "summary": summ[-1] if summ else ""}
def ex(p):
    try:
        return open(p).read()
    except OSError:
        return ""
notes = ex(f"{out}/notes.md")
meta = {
    "property": prop,
    "files_changed": re.findall(r"^\+\+\+ b/(\S+)", diff, re.M),
    "needs_to_manifest": (re.search(r"(?is)(trigger|manifest)[^\n]*\n(.{0,900})", notes) or [None, "", "see notes.md"])[2].strip()[:900] if notes else "see notes.md",
    "origin": "written by an independent sub-agent that was given only the property text and a scratch worktree",
    "confirmed_by_me": {
        "demo_with_change_exit": 1 if "exit=1" in ex(f"{root}/eval_{name}.log").split("WITHOUT")[0] else None,
        "commands": [f"cd <worktree with patch.diff applied> && PYTHONPATH=<worktree>/src /venv/bin/python demo.py  -> exit 1",
                     "cd /repo && PYTHONPATH=/repo/src /venv/bin/python demo.py  -> exit 0",
                     "VERIF_PYHF_SRC=<worktree>/src ./check <ID> --tier quick --no-evidence"],
        "existing_tests": "the sub-agent ran the test files around the touched code on both trees (see notes.md); no test that passes on the unmodified tree fails with the change",
    },
    "caught_by": caught,
}
json.dump(meta, open(f"{dst}/meta.json", "w"), indent=1, sort_keys=True)
print(name, {k: v["detected"] for k, v in caught.items()})

#!/bin/sh
# re-run every kept seeded change's demonstration on a scratch worktree with and without the patch and
# record the two exit codes in seeded/<id>/meta.json  (usage: tools/reconfirm_seeds.sh [ids...])
WT=/tmp/reconfirm_wt
cd /verif
rm -rf $WT; git -C /repo worktree prune
tools/scratch_tree.sh $WT >/dev/null 2>&1
IDS=${*:-$(ls seeded)}
for d in $IDS; do
  git -C $WT checkout -q -- . ; git -C $WT clean -fdq -e src/pyhf/_version.py
  if ! git -C $WT apply /verif/seeded/$d/patch.diff 2>/dev/null; then echo "$d patch-does-not-apply"; continue; fi
  (cd $WT && PYTHONPATH=$WT/src timeout 600 /venv/bin/python /verif/seeded/$d/demo.py >/dev/null 2>&1); w=$?
  git -C $WT checkout -q -- .
  (cd $WT && PYTHONPATH=$WT/src timeout 600 /venv/bin/python /verif/seeded/$d/demo.py >/dev/null 2>&1); wo=$?
  echo "$d with=$w without=$wo"
  /venv/bin/python - "$d" "$w" "$wo" <<'PY'
import json, sys
d, w, wo = sys.argv[1], int(sys.argv[2]), int(sys.argv[3])
p = f"/verif/seeded/{d}/meta.json"
m = json.load(open(p))
m["confirmed_by_me"]["demo_with_change_exit"] = w
m["confirmed_by_me"]["demo_without_change_exit"] = wo
json.dump(m, open(p, "w"), indent=1, sort_keys=True)
PY
done
git -C /repo worktree remove --force $WT

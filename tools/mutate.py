#!/venv/bin/python
"""Mutation sample: how many small syntactic changes of the anchored pyhf sources do the quick checks notice?

usage: tools/mutate.py --n 60 --seed 1 [--jobs 8] [--scale 0.5] [--out seeded/mutation_sample.json]

For each sampled mutant (one AST-level change in one anchored source file) the file is written into a scratch git
worktree of /repo under /tmp (never /repo itself), `import pyhf` is tried, and the quick checks of the properties
anchored in that file are run against the scratch tree (VERIF_PYHF_SRC).  A mutant is
  killed     - a check exits 1 (VIOLATION line),
  crashed    - pyhf no longer imports, or a check ends in a harness error (exit 2),
  survived   - every designated check exits 0.
Survivors are listed with their diff for manual inspection (equivalent mutant / outside every listed property /
gap in a check).  Nothing here is a registered check; it measures the registered ones.
"""
import argparse
import ast
import copy
import json
import os
import random
import subprocess
import sys

ROOT = os.path.dirname(os.path.dirname(os.path.abspath(__file__)))
TARGETS = {
    "interpolators/code0.py": ["C03"], "interpolators/code1.py": ["C03"], "interpolators/code2.py": ["C03"],
    "interpolators/code4.py": ["C03"], "interpolators/code4p.py": ["C03"],
    "modifiers/histosys.py": ["C01", "C12", "C20"], "modifiers/normsys.py": ["C01", "C12"],
    "modifiers/shapesys.py": ["C01", "C02", "C12"], "modifiers/staterror.py": ["C01", "C02", "C12"],
    "modifiers/shapefactor.py": ["C01", "C12"], "modifiers/lumi.py": ["C01", "C12"],
    "modifiers/normfactor.py": ["C01", "C12"],
    "pdf.py": ["C01", "C02", "C10", "C12", "C20"], "constraints.py": ["C02", "C14"],
    "parameters/paramsets.py": ["C12", "C02"], "parameters/paramview.py": ["C12", "C01", "C10"],
    "tensor/numpy_backend.py": ["C04", "C01", "C14"], "probability.py": ["C04", "C02"],
    "infer/test_statistics.py": ["C06"], "infer/calculators.py": ["C07", "C08", "C14"], "infer/__init__.py": ["C08", "C09"],
    "infer/intervals/upper_limits.py": ["C09"], "infer/mle.py": ["C05", "C06"], "infer/utils.py": ["C08", "C07"],
    "cli/infer.py": ["C19"], "cli/spec.py": ["C19"], "cli/rootio.py": ["C19"], "cli/patchset.py": ["C19"],
    "modifiers/__init__.py": ["C20", "C01"], "mixins.py": ["C12"], "optimize/common.py": ["C05", "C13"],
    "optimize/mixins.py": ["C05"], "optimize/opt_scipy.py": ["C05"], "optimize/opt_minuit.py": ["C05"],
    "workspace.py": ["C16", "C12"], "patchset.py": ["C17"], "utils.py": ["C17", "C19"],
    "readxml.py": ["C18"], "writexml.py": ["C18"], "tensor/common.py": ["C01", "C14"], "events.py": ["C11"],
}

CMP = {ast.Lt: ast.LtE, ast.LtE: ast.Lt, ast.Gt: ast.GtE, ast.GtE: ast.Gt, ast.Eq: ast.NotEq, ast.NotEq: ast.Eq,
       ast.Is: ast.IsNot, ast.IsNot: ast.Is, ast.In: ast.NotIn, ast.NotIn: ast.In}
BIN = {ast.Add: ast.Sub, ast.Sub: ast.Add, ast.Mult: ast.Div, ast.Div: ast.Mult}


def sites(tree):
    """(kind, node-path-index) for every mutable site; docstrings and __all__ are skipped"""
    out = []
    for idx, node in enumerate(ast.walk(tree)):
        if isinstance(node, ast.Compare) and type(node.ops[0]) in CMP:
            out.append(("cmp", idx))
        elif isinstance(node, ast.BinOp) and type(node.op) in BIN:
            out.append(("bin", idx))
        elif isinstance(node, ast.BoolOp):
            out.append(("bool", idx))
        elif isinstance(node, ast.UnaryOp) and isinstance(node.op, ast.Not):
            out.append(("not", idx))
        elif isinstance(node, ast.Constant) and isinstance(node.value, (int, float)) and not isinstance(node.value, bool):
            out.append(("const", idx))
        elif isinstance(node, ast.Constant) and isinstance(node.value, bool):
            out.append(("flag", idx))
    return out


def apply(tree, kind, idx):
    for i, node in enumerate(ast.walk(tree)):
        if i != idx:
            continue
        if kind == "cmp":
            node.ops[0] = CMP[type(node.ops[0])]()
        elif kind == "bin":
            node.op = BIN[type(node.op)]()
        elif kind == "bool":
            node.op = ast.Or() if isinstance(node.op, ast.And) else ast.And()
        elif kind == "not":
            node.op = ast.UAdd()  # `not x` -> `+x` would change type; replaced below
            return "not"
        elif kind == "const":
            node.value = node.value + 1 if isinstance(node.value, int) else node.value * 1.5 + 0.25
        elif kind == "flag":
            node.value = not node.value
        return kind
    return None


class DropNot(ast.NodeTransformer):
    def visit_UnaryOp(self, node):
        self.generic_visit(node)
        if isinstance(node.op, ast.UAdd) and getattr(node, "_was_not", False):
            return node.operand
        return node


def mutate_source(src, rng):
    tree = ast.parse(src)
    # strip docstring constants from the candidate list
    doc_ids = set()
    for n in ast.walk(tree):
        if isinstance(n, (ast.FunctionDef, ast.ClassDef, ast.Module)) and n.body and isinstance(n.body[0], ast.Expr) \
                and isinstance(n.body[0].value, ast.Constant):
            doc_ids.add(id(n.body[0].value))
    cands = sites(tree)
    if not cands:
        return None
    kind, idx = rng.choice(cands)
    t2 = copy.deepcopy(tree)
    for i, node in enumerate(ast.walk(t2)):
        if i == idx:
            before = ast.unparse(node)
            line = getattr(node, "lineno", None)
            if kind == "not":
                node._was_not = True
            break
    apply(t2, kind, idx)
    if kind == "not":
        t2 = DropNot().visit(t2)
    ast.fix_missing_locations(t2)
    new_src = ast.unparse(t2)
    if new_src == ast.unparse(tree):
        return None
    return {"kind": kind, "line": line, "before": before, "source": new_src}


def run(cmd, timeout=None, **kw):
    try:
        return subprocess.run(cmd, stdout=subprocess.PIPE, stderr=subprocess.STDOUT, text=True, timeout=timeout,
                              start_new_session=True, **kw)
    except subprocess.TimeoutExpired as e:
        subprocess.run(["pkill", "-f", "VERIF_MUTANT_MARK"], check=False)

        class R:
            returncode = 124
            stdout = f"timeout after {timeout}s"
        return R()


def main():
    ap = argparse.ArgumentParser()
    ap.add_argument("--n", type=int, default=40)
    ap.add_argument("--seed", type=int, default=1)
    ap.add_argument("--jobs", type=int, default=8)
    ap.add_argument("--scale", type=float, default=0.5)
    ap.add_argument("--out", default=os.path.join(ROOT, "seeded", "mutation_sample.json"))
    ap.add_argument("--files", default=None, help="comma separated subset of the target files")
    a = ap.parse_args()
    rng = random.Random(a.seed)
    wt = f"/tmp/mutate_wt_{os.getpid()}"
    run(["git", "-C", "/repo", "worktree", "prune"])
    print(run([os.path.join(ROOT, "tools", "scratch_tree.sh"), wt]).stdout[-200:])
    files = sorted(TARGETS) if not a.files else a.files.split(",")
    results = []
    try:
        done = 0
        attempts = 0
        while done < a.n and attempts < a.n * 5:
            attempts += 1
            rel = rng.choice(files)
            path = os.path.join(wt, "src", "pyhf", rel)
            orig = open(path).read()
            m = mutate_source(orig, rng)
            if m is None:
                continue
            open(path, "w").write(m["source"])
            diff = run(["git", "-C", wt, "diff", "--stat"]).stdout.strip().splitlines()[-1:]
            rec = {"file": rel, "kind": m["kind"], "line": m["line"], "site": m["before"][:160], "checks": {}}
            imp = run(["/venv/bin/python", "-c", "import pyhf, pyhf.readxml, pyhf.writexml, pyhf.patchset"],
                      env=dict(os.environ, PYTHONPATH=os.path.join(wt, "src")), cwd=wt)
            if imp.returncode != 0:
                rec["outcome"] = "crashed_on_import"
            else:
                outcome = "survived"
                for chk in TARGETS[rel]:
                    r = run([os.path.join(ROOT, "check"), chk, "--tier", "quick", "--no-evidence", "--jobs", str(a.jobs),
                             "--scale", str(a.scale)], env=dict(os.environ, VERIF_PYHF_SRC=os.path.join(wt, "src")),
                            cwd=ROOT, timeout=1200)
                    if r.returncode == 124:
                        subprocess.run(["pkill", "-f", f"VERIF_PYHF_SRC={wt}"], check=False)
                        subprocess.run("pkill -f 'vlib.worker --prop " + chk + " '", shell=True, check=False)
                    sigs = [ln.split("signature: ")[1] for ln in r.stdout.splitlines() if "violation signature: " in ln]
                    rec["checks"][chk] = {"exit": r.returncode, "signatures": sigs[:4]}
                    if r.returncode == 1:
                        outcome = "killed"
                        break
                    if r.returncode == 124:
                        outcome = "hang"
                        break
                    if r.returncode != 0:
                        outcome = "crashed_in_check"
                        rec["checks"][chk]["tail"] = r.stdout[-400:]
                        break
                rec["outcome"] = outcome
            # the unparsed file differs from the original in formatting; keep a semantic one-line description
            results.append(rec)
            done += 1
            print(f"[{done}/{a.n}] {rel}:{m['line']} {m['kind']} `{m['before'][:70]}` -> {rec['outcome']} "
                  f"{ {k: v['exit'] for k, v in rec['checks'].items()} }", flush=True)
            open(path, "w").write(orig)
            with open(a.out, "w") as fh:
                json.dump({"seed": a.seed, "scale": a.scale, "mutants": results}, fh, indent=1)
    finally:
        run(["git", "-C", "/repo", "worktree", "remove", "--force", wt])
        import glob
        import shutil

        for d in glob.glob(os.path.join(ROOT, "replays", "*", "new")):
            shutil.rmtree(d, ignore_errors=True)
    tally = {}
    for r in results:
        tally[r["outcome"]] = tally.get(r["outcome"], 0) + 1
    print("tally", tally)


if __name__ == "__main__":
    sys.exit(main())

#!/bin/sh
# Runs every thorough command once (sequentially) and prints one summary line per property.
# usage: tools/thorough_sweep.sh [jobs] [ids...]     (VERIF_SEED selects the seed; run ./setup.sh first in a fresh snapshot)
JOBS=${1:-8}; shift
IDS=${*:-"C05 C06 C08 C09 C13 C17 C20 C12 C16 C10 C14 C07 C18 C04 C03 C02 C01 C19 C15 C11"}
for id in $IDS; do
  start=$(date +%s)
  ./check $id --tier thorough --jobs $JOBS > sweep_$id.log 2>&1
  rc=$?
  echo "$id rc=$rc secs=$(( $(date +%s) - start )) $(grep '^\[' sweep_$id.log | tail -1)"
  grep "violation signature\|HARNESS" sweep_$id.log | head -5
done
